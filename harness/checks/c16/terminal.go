package c16

import (
	"bytes"
	"strings"
	"os"
	"fmt"
	"regexp"
	"time"

	"verifharness/wire"
)

// Terminal streams end with the server closing the connection (QUIT inside a
// subscription, a protocol error, an invalid HTTP request behind RESP
// commands) or switch the connection to the publish/subscribe loop. They
// cannot reuse connections and their reply count is not one per command, so
// they are judged on the complete reply byte stream read to EOF after a
// half-close: every segmentation must give the bytes of the single write.

type termStream struct {
	ID    string
	Bytes []byte
	Ends  []int // offsets just past each syntactic unit (cut classes only)
	Want  int   // > 0: the number of RESP reply frames the stream must produce (one per command)
}

func (t *termStream) cmd(p wire.Proto, args ...string) *termStream {
	b, ok := wire.Encode(p, args...)
	if !ok {
		panic("terminal stream: cannot encode " + fmt.Sprint(args))
	}
	t.Bytes = append(t.Bytes, b...)
	t.Ends = append(t.Ends, len(t.Bytes))
	return t
}

func (t *termStream) raw(s string) *termStream {
	t.Bytes = append(t.Bytes, s...)
	t.Ends = append(t.Ends, len(t.Bytes))
	return t
}

func terminalStreams() []*termStream {
	var out []*termStream
	for _, p := range []wire.Proto{wire.RESP, wire.Telnet} {
		n := p.String()
		// subscription loop entered by a command that shares its segment with later ones
		t := &termStream{ID: n + "-pubsub"}
		t.cmd(p, "SUBSCRIBE", "cha").cmd(p, "PING").cmd(p, "PING", "x").cmd(p, "PSUBSCRIBE", "p*").cmd(p, "SUBSCRIBE", "chb").
			cmd(p, "UNSUBSCRIBE", "cha").cmd(p, "GET", "k1", "a").cmd(p, "PUNSUBSCRIBE", "p*").cmd(p, "QUIT")
		out = append(out, t)
		t = &termStream{ID: n + "-cmds-then-pubsub"}
		t.cmd(p, "SET", "tk1", "a", "POINT", "1", "2").cmd(p, "GET", "tk1", "a").cmd(p, "PSUBSCRIBE", "q*", "r*").cmd(p, "PING").cmd(p, "SUBSCRIBE", "chc").cmd(p, "QUIT")
		out = append(out, t)
		t = &termStream{ID: n + "-pubsub-no-quit"}
		t.cmd(p, "ECHO", "first").cmd(p, "SUBSCRIBE", "chd").cmd(p, "PING", "last")
		out = append(out, t)
		// commands followed by input that ends the connection with an error
		t = &termStream{ID: n + "-http-tail"}
		t.cmd(p, "PING").cmd(p, "ECHO", "x").raw("GET / HTTP/1.1\r\n\r\n")
		out = append(out, t)
		t = &termStream{ID: n + "-http-tail-2"}
		t.cmd(p, "PING").cmd(p, "ECHO", "x").raw("POST  HTTP/1.1\r\nContent-Length: 0\r\n\r\n")
		out = append(out, t)
		t = &termStream{ID: n + "-protocol-error-tail"}
		t.cmd(p, "PING").cmd(p, "ECHO", "x").raw("*1\r\n$abc\r\nPING\r\n")
		out = append(out, t)
		t = &termStream{ID: n + "-quit-mid"}
		t.cmd(p, "PING").cmd(p, "QUIT").cmd(p, "ECHO", "never")
		out = append(out, t)
	}
	// inline commands ended by a bare LF (what `echo PING | nc` sends), also with first letters that
	// could start an HTTP request line
	lf := &termStream{ID: "telnet-bare-lf"}
	for _, l := range []string{"PING", "GET nokey noid", "ECHO x", "OUTPUT resp", "DEL tk2 zz", "SET tk2 a POINT 1 2", "GET tk2 a", "OUTPUT resp", "PING"} {
		lf.raw(l + "\n")
		lf.Want++
	}
	out = append(out, lf)
	lf = &termStream{ID: "telnet-mixed-line-ends"}
	for i, l := range []string{"PING", "GET nokey noid", "SET tk3 a POINT 1 2", "PING", "GET tk3 a", "ECHO y"} {
		if i%2 == 0 {
			lf.raw(l + "\n")
		} else {
			lf.raw(l + "\r\n")
		}
		lf.Want++
	}
	out = append(out, lf)
	t := &termStream{ID: "telnet-unbalanced-quote-tail"}
	t.cmd(wire.Telnet, "PING").cmd(wire.Telnet, "ECHO", "x").raw("ECHO \"abc\r\nPING\r\n")
	out = append(out, t)
	return out
}

var reElapsed = regexp.MustCompile(`"elapsed":"[^"]*"`)

// runTerminal sends the stream cut at the given offsets with a pause after
// each segment (so that the server reads them separately), half-closes and
// returns everything received until EOF.
func runTerminal(addr string, t *termStream, cuts []int, pause time.Duration) (out []byte, timedOut bool, err error) {
	c, err := wire.Dial(addr, ioTimeout)
	if err != nil {
		return nil, false, err
	}
	defer c.Close()
	pos := 0
	for _, cut := range cuts {
		if cut <= pos || cut >= len(t.Bytes) {
			continue
		}
		if err := c.Write(t.Bytes[pos:cut]); err != nil {
			break // the server may already have closed: judge what arrives
		}
		pos = cut
		time.Sleep(pause)
	}
	c.Write(t.Bytes[pos:])
	// let the server consume the last segment before it sees the half-close
	time.Sleep(pause)
	c.CloseWrite()
	to, rerr := c.ReadToEOF(ioTimeout)
	res := reElapsed.ReplaceAll(c.Buf, []byte(`"elapsed":"_"`))
	if to {
		return res, true, nil
	}
	_ = rerr // a reset after the server closed: what was received is judged
	return append([]byte(nil), res...), false, nil
}

func (ck *checker) partTerminal() {
	ctx := ck.ctx
	slowDone := make(chan struct{})
	go func() { defer close(slowDone); ck.slowReaderProbe() }()
	defer func() { <-slowDone }()
	s := ck.startServer()
	defer func() { s.Kill9() }()
	restart := func() {
		s.Kill9()
		s = ck.startServer()
	}
	const pause = 12 * time.Millisecond
	for _, t := range terminalStreams() {
		if ck.tooMany() {
			return
		}
		if only := os.Getenv("VERIF_C16_TERM"); only != "" && only != t.ID {
			continue
		}
		b1, to1, err1 := runTerminal(s.Addr(), t, nil, pause)
		b2, to2, err2 := runTerminal(s.Addr(), t, nil, pause)
		if !s.Alive() {
			_, site := s.Crashed()
			ck.report(crashKey(site), "server died on the terminal stream "+t.ID+": "+site, map[string]any{"stream": t.ID, "bytes": string(t.Bytes), "stderr": s.StderrTail(3000)})
			restart()
			continue
		}
		if err1 != nil || err2 != nil || to1 || to2 {
			ctx.Inconclusive(fmt.Sprintf("terminal stream %s: baseline not obtained (%v %v timeouts %v %v)", t.ID, err1, err2, to1, to2))
			restart()
			continue
		}
		if !bytes.Equal(b1, b2) {
			ctx.Inconclusive(fmt.Sprintf("terminal stream %s: baseline not reproducible", t.ID))
			continue
		}
		ctx.Eval(1)
		ctx.Count("terminal_streams", 1)
		if t.Want > 0 {
			fr, rest, ferr := wire.SplitAll(wire.RESP, b1)
			if len(fr) != t.Want || len(rest) > 0 || ferr != nil {
				ck.report("count-terminal:"+t.ID, fmt.Sprintf("stream %s (%q) holds %d commands and is answered with %d reply frames (%d unparsed bytes) when sent in one write: %q", t.ID, clip(string(t.Bytes)), t.Want, len(fr), len(rest), clip(string(b1))),
					map[string]any{"stream": t.ID, "bytes": string(t.Bytes), "replies": string(b1)})
				continue
			}
		}
		if t.ID == "resp-pubsub" {
			ctx.Sample(map[string]any{"terminal_stream": t.ID, "bytes": clip(string(t.Bytes)), "baseline_reply_bytes": clip(string(b1))})
		}
		// every 2-way cut, then cuts at every unit boundary together, then byte-at-a-time for short streams
		var cases [][]int
		for p := 1; p < len(t.Bytes); p++ {
			cases = append(cases, []int{p})
		}
		cases = append(cases, append([]int(nil), t.Ends[:len(t.Ends)-1]...))
		all := make([]int, 0, len(t.Bytes))
		for p := 1; p < len(t.Bytes); p++ {
			all = append(all, p)
		}
		cases = append(cases, all)
		reported := false
		for _, cuts := range cases {
			if reported || ck.tooMany() {
				break
			}
			got, to, err := runTerminal(s.Addr(), t, cuts, pause)
			if !s.Alive() {
				_, site := s.Crashed()
				ck.report(crashKey(site), fmt.Sprintf("server died on terminal stream %s cuts=%v: %s", t.ID, cutsForReplay(cuts), site), map[string]any{"stream": t.ID, "bytes": string(t.Bytes), "cuts": cutsForReplay(cuts), "stderr": s.StderrTail(3000)})
				restart()
				reported = true
				break
			}
			if err != nil || to {
				ctx.Count("terminal_runs_without_verdict", 1)
				restart()
				continue
			}
			ctx.Eval(1)
			ctx.Count("terminal_segmentations_compared", 1)
			if len(cuts) == 1 {
				ctx.Distinct("term:" + t.ID + "@" + fmt.Sprint(cuts[0]))
			}
			if bytes.Equal(got, b1) {
				continue
			}
			// confirm on a fresh server, with a longer pause
			confirmed := false
			var got2 []byte
			for i := 0; i < 2 && !confirmed; i++ {
				fresh := ck.startServer()
				base, tob, errb := runTerminal(fresh.Addr(), t, nil, 3*pause)
				var to2 bool
				var err2 error
				got2, to2, err2 = runTerminal(fresh.Addr(), t, cuts, 3*pause)
				fresh.Kill9()
				if errb == nil && err2 == nil && !tob && !to2 && !bytes.Equal(base, got2) {
					confirmed = true
				}
			}
			if !confirmed {
				ctx.Count("mismatch_not_reproduced", 1)
				continue
			}
			descr := fmt.Sprintf("cuts=%v", cuts)
			if len(cuts) > 12 {
				descr = fmt.Sprintf("%d cuts", len(cuts))
			}
			ck.report("seg-terminal:"+t.ID, fmt.Sprintf("stream %s (%d bytes: %q) %s: reply bytes differ from the single-write baseline: baseline %q, segmented %q", t.ID, len(t.Bytes), clip(string(t.Bytes)), descr, clip(string(b1)), clip(string(got2))),
				map[string]any{"stream": t.ID, "bytes": string(t.Bytes), "cuts": cutsForReplay(cuts), "baseline": string(b1), "segmented": string(got2)})
			reported = true
		}
	}
	ck.optionsProbe(s.Addr())
	ck.interpreterProbe()
	ck.followAuthProbe()
	ck.monitorProbe()
}

// optionsProbe: one HTTP OPTIONS request gets one response, however many
// segments follow it on the connection.
func (ck *checker) optionsProbe(addr string) {
	ctx := ck.ctx
	req := "OPTIONS / HTTP/1.1\r\nHost: x\r\n\r\n"
	count := func(follow int) (int, []byte, error) {
		c, err := wire.Dial(addr, ioTimeout)
		if err != nil {
			return 0, nil, err
		}
		defer c.Close()
		if err := c.Write([]byte(req)); err != nil {
			return 0, nil, err
		}
		time.Sleep(30 * time.Millisecond)
		for i := 0; i < follow; i++ {
			if c.Write([]byte("X")) != nil {
				break
			}
			time.Sleep(30 * time.Millisecond)
		}
		c.CloseWrite()
		c.ReadToEOF(2 * time.Second)
		return bytes.Count(c.Buf, []byte("HTTP/1.1 ")), append([]byte(nil), c.Buf...), nil
	}
	n0, _, err0 := count(0)
	n3, buf, err3 := count(3)
	if err0 != nil || err3 != nil {
		ctx.Inconclusive(fmt.Sprintf("OPTIONS probe: %v %v", err0, err3))
		return
	}
	ctx.Eval(2)
	ctx.Count("options_probes", 2)
	ctx.Distinct("term:http-options")
	if n0 != 1 || n3 != 1 {
		ck.report("seg-terminal:http-options", fmt.Sprintf("one OPTIONS request is answered %d time(s) when nothing follows and %d time(s) when three one-byte segments follow it: %q", n0, n3, clip(string(buf))),
			map[string]any{"request": req, "followed_by": "X X X (one byte per segment)", "received": string(buf)})
	}
}

// slowReaderProbe: a pipeline whose replies exceed every socket buffer is sent
// while the client does not read for several seconds; afterwards every reply
// must be there, whole and in order (one per command).
func (ck *checker) slowReaderProbe() {
	ctx := ck.ctx
	s := ck.startServer()
	defer s.Kill9()
	c, err := wire.Dial(s.Addr(), 60*time.Second)
	if err != nil {
		ctx.Inconclusive("slow reader probe: " + err.Error())
		return
	}
	defer c.Close()
	val := bytes.Repeat([]byte("0123456789abcdef"), 1024) // 16 KiB
	if err := c.Write(wire.EncodeRESP("SET", "slowk", "big", "STRING", string(val))); err != nil {
		ctx.Inconclusive("slow reader probe: " + err.Error())
		return
	}
	if f, err := c.Next(wire.RESP, ioTimeout); err != nil || string(f) != "+OK\r\n" {
		ctx.Inconclusive(fmt.Sprintf("slow reader probe: SET: %v %q", err, f))
		return
	}
	const n = 3000
	var pipe []byte
	for i := 0; i < n; i++ {
		pipe = append(pipe, wire.EncodeRESP("GET", "slowk", "big")...)
		pipe = append(pipe, wire.EncodeRESP("ECHO", fmt.Sprintf("marker-%d", i))...)
	}
	werr := make(chan error, 1)
	go func() { werr <- c.Write(pipe) }()
	time.Sleep(5 * time.Second) // the server's writes stall on the full socket meanwhile
	wantGet := fmt.Sprintf("$%d\r\n%s\r\n", len(val), val)
	for i := 0; i < 2*n; i++ {
		f, err := c.Next(wire.RESP, 30*time.Second)
		want := wantGet
		if i%2 == 1 {
			m := fmt.Sprintf("marker-%d", i/2)
			want = fmt.Sprintf("$%d\r\n%s\r\n", len(m), m)
		}
		if err != nil || string(f) != want {
			if !s.Alive() {
				_, site := s.Crashed()
				ck.report(crashKey(site), "server died during the slow-reader pipeline: "+site, map[string]any{"stderr": s.StderrTail(3000)})
				return
			}
			if err != nil && wire.IsTimeout(err) && i == 0 {
				ctx.Inconclusive("slow reader probe: no reply within 30 s")
				return
			}
			ck.report("seg-slow-reader", fmt.Sprintf("pipeline of %d x (GET 16 KiB value, ECHO marker) read after a 5 s pause of the client: reply %d of %d is %q (error %v), expected %q", n, i, 2*n, clip(string(f)), err, clip(want)),
				map[string]any{"commands": fmt.Sprintf("SET slowk big STRING <16 KiB>; %d x (GET slowk big; ECHO marker-i) in one write; client reads after 5 s", n), "reply_index": i})
			return
		}
	}
	if err := <-werr; err != nil {
		ctx.Inconclusive("slow reader probe: write: " + err.Error())
		return
	}
	ctx.Eval(1)
	ctx.Count("slow_reader_replies_checked", 2*n)
	ctx.Distinct("term:slow-reader")
}

// interpreterProbe: rejected commands must not use up a server-wide resource.
// Malformed WHEREEVAL clauses (fewer arguments than announced, a script that
// does not compile, an unknown sha) are sent well over a thousand times on one
// connection; afterwards another connection's scripts must still run.
func (ck *checker) interpreterProbe() {
	ctx := ck.ctx
	s := ck.startServer()
	defer s.Kill9()
	c, err := wire.Dial(s.Addr(), ioTimeout)
	if err != nil {
		ctx.Inconclusive("interpreter probe: " + err.Error())
		return
	}
	defer c.Close()
	c.Write(wire.EncodeRESP("SET", "ik", "a", "POINT", "1", "2"))
	c.Next(wire.RESP, ioTimeout)
	shapes := [][]string{
		{"SCAN", "ik", "WHEREEVAL", "return 1", "2", "a"},
		{"SCAN", "ik", "WHEREEVAL", "this is not lua(", "0"},
		{"SCAN", "ik", "WHEREEVALSHA", "0123456789012345678901234567890123456789", "0"},
		{"NEARBY", "ik", "WHEREEVAL", "return 1", "3", "x", "POINT", "1", "2"},
		// the clause itself is fine, a later token is not
		{"SCAN", "ik", "WHEREEVAL", "return true", "0", "LIMIT", "0"},
		{"SCAN", "ik", "WHEREEVAL", "return true", "0", "CURSOR", "x"},
		{"NEARBY", "ik", "WHEREEVAL", "return true", "0", "DESC", "POINT", "1", "2"},
		{"WITHIN", "ik", "WHEREEVAL", "return true", "0", "WHEREEVAL", "return true", "0", "BOUNDS", "1", "2"},
	}
	const per = 1100
	for _, sh := range shapes {
		var b []byte
		for i := 0; i < per; i++ {
			b = append(b, wire.EncodeRESP(sh...)...)
		}
		if err := c.Write(b); err != nil {
			ctx.Inconclusive("interpreter probe: write: " + err.Error())
			return
		}
		for i := 0; i < per; i++ {
			if _, err := c.Next(wire.RESP, ioTimeout); err != nil {
				if !s.Alive() {
					_, site := s.Crashed()
					ck.report(crashKey(site), "server died on repeated "+fmt.Sprint(sh)+": "+site, map[string]any{"command": sh, "stderr": s.StderrTail(3000)})
					return
				}
				ctx.Inconclusive("interpreter probe: read: " + err.Error())
				return
			}
		}
		other, err := wire.Dial(s.Addr(), ioTimeout)
		if err != nil {
			ctx.Inconclusive("interpreter probe: " + err.Error())
			return
		}
		other.Write(wire.EncodeRESP("EVAL", "return 41 + 1", "0"))
		f, err := other.Next(wire.RESP, ioTimeout)
		other.Write(wire.EncodeRESP("SCAN", "ik", "WHEREEVAL", "return true", "0", "IDS"))
		f2, err2 := other.Next(wire.RESP, ioTimeout)
		other.Close()
		ctx.Eval(1)
		ctx.Distinct("term:interpreters|" + sh[2] + "|" + sh[3])
		if err != nil || err2 != nil || string(f) != ":42\r\n" || bytes.HasPrefix(f2, []byte("-")) {
			ck.report("resource:interpreters-exhausted", fmt.Sprintf("after %d rejected commands %q on one connection, another connection's `EVAL \"return 41 + 1\" 0` answers %q and `SCAN ik WHEREEVAL \"return true\" 0 IDS` answers %q", per, sh, clip(string(f)), clip(string(f2))),
				map[string]any{"rejected_command": sh, "times": per, "eval_reply": string(f), "whereeval_reply": string(f2)})
			return
		}
	}
	ctx.Count("interpreter_probe_rejected_commands", int64(per*len(shapes)))
}

// followAuthProbe: FOLLOW with a leader password against a leader that has
// none (its AUTH is refused) is answered with an error; the process stays up.
func (ck *checker) followAuthProbe() {
	ctx := ck.ctx
	leader := ck.startServer()
	defer leader.Kill9()
	s := ck.startServer()
	defer s.Kill9()
	c, err := wire.Dial(s.Addr(), ioTimeout)
	if err != nil {
		ctx.Inconclusive("follow-auth probe: " + err.Error())
		return
	}
	defer c.Close()
	do := func(args ...string) string {
		if err := c.Write(wire.EncodeRESP(args...)); err != nil {
			return "write: " + err.Error()
		}
		f, err := c.Next(wire.RESP, ioTimeout)
		if err != nil {
			return "read: " + err.Error()
		}
		return string(f)
	}
	lport := leader.Addr()[strings.LastIndexByte(leader.Addr(), ':')+1:]
	seq := [][]string{{"CONFIG", "SET", "leaderauth", "no-such-password"}, {"FOLLOW", "127.0.0.1", lport}, {"PING"}, {"FOLLOW", "127.0.0.1", "1"}, {"PING"}, {"FOLLOW", "no", "one"}, {"SET", "fa", "a", "POINT", "1", "2"}}
	var replies []string
	for _, cmd := range seq {
		replies = append(replies, do(cmd...))
	}
	time.Sleep(100 * time.Millisecond)
	ctx.Eval(1)
	ctx.Distinct("term:follow-leaderauth-refused")
	if !s.Alive() {
		_, site := s.Crashed()
		ck.report(crashKey(site), fmt.Sprintf("server died on %v (replies %q): %s", seq, replies, site), map[string]any{"commands": seq, "replies": replies, "stderr": s.StderrTail(3000)})
		return
	}
	if !strings.HasPrefix(replies[1], "-") || replies[2] != "+PONG\r\n" || replies[len(replies)-1] != "+OK\r\n" {
		ck.report("seg-terminal:follow-leaderauth", fmt.Sprintf("sequence %v answered %q: FOLLOW against a leader that refuses AUTH must be an error and the connection must go on working", seq, replies), map[string]any{"commands": seq, "replies": replies})
	}
}

// monitorProbe: a MONITOR connection that stops reading must not hold up the
// other connections (the server may drop it).
func (ck *checker) monitorProbe() {
	ctx := ck.ctx
	s := ck.startServer()
	defer s.Kill9()
	m, err := wire.Dial(s.Addr(), ioTimeout)
	if err != nil {
		ctx.Inconclusive("monitor probe: " + err.Error())
		return
	}
	defer m.Close()
	m.Write(wire.EncodeRESP("MONITOR"))
	if f, err := m.Next(wire.RESP, ioTimeout); err != nil || string(f) != "+OK\r\n" {
		ctx.Inconclusive(fmt.Sprintf("monitor probe: MONITOR answered %q %v", f, err))
		return
	}
	// from here on the monitor connection is never read
	w, err := wire.Dial(s.Addr(), ioTimeout)
	if err != nil {
		ctx.Inconclusive("monitor probe: " + err.Error())
		return
	}
	defer w.Close()
	val := strings.Repeat("m", 100000)
	answered := 0
	var last error
	start := time.Now()
	for i := 0; i < 120; i++ {
		if err := w.Write(wire.EncodeRESP("SET", "mon", "a", "STRING", val)); err != nil {
			last = err
			break
		}
		if _, err := w.Next(wire.RESP, 15*time.Second); err != nil {
			last = err
			break
		}
		answered++
	}
	ctx.Eval(1)
	ctx.Distinct("term:monitor-not-reading")
	if answered < 120 {
		if !s.Alive() {
			_, site := s.Crashed()
			ck.report(crashKey(site), "server died in the monitor probe: "+site, map[string]any{"stderr": s.StderrTail(3000)})
			return
		}
		can := &canary{s: ck.startServer()}
		ok := can.answers()
		can.s.Kill9()
		if !ok {
			ctx.Inconclusive("monitor probe: writes stalled and the canary server was slow too")
			return
		}
		ck.report("wedge:monitor-not-reading", fmt.Sprintf("one connection sent MONITOR and stopped reading; another connection's `SET mon a STRING <100 KB>` was answered %d times and then not within 15 s (%v, %.1f s after the start): a command holds the server lock while it writes to the monitor", answered, last, time.Since(start).Seconds()),
			map[string]any{"monitor": "MONITOR, then never read", "writer": "120 x SET mon a STRING <100000 bytes>", "answered": answered})
	}
}
