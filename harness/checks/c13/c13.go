// Package c13: NEARBY order, k-nearest, radius and DISTANCE against the
// independent geo oracle (DESIGN.md section 4, C13).
package c13

import (
	"fmt"
	"hash/fnv"
	"math"
	"math/rand"
	"sort"
	"strconv"
	"sync"
	"time"

	"verifharness/core"
	"verifharness/geo"
	"verifharness/respc"
	"verifharness/srv"
)

// kinds used by C13: every one has a bounding rectangle the model knows
// independently (no HASH objects: their position comes from a geohash decoder).
var spatialKinds = []string{"point", "point", "point", "point", "pointz", "bounds", "bounds", "line", "polygon", "concave", "holed", "multipoint", "multiline", "multipolygon", "collection", "feature", "fcollection"}

type mobj struct {
	geo.Obj
	id string
}

type dataset struct {
	idx   int
	key   string
	objs  map[string]*mobj
	log   [][]string
	reg   geo.Region
	gen   *geo.Gen
	hash  string
	ghost []geo.Rect // former positions of moved / deleted objects
}

func (d *dataset) spatial() []*mobj {
	var out []*mobj
	for _, o := range d.objs {
		if o.Spatial && !o.Empty {
			out = append(out, o)
		}
	}
	sort.Slice(out, func(i, j int) bool { return out[i].id < out[j].id })
	return out
}

type worker struct {
	ctx *core.Ctx
	bin string
	s   *srv.Server
	c   *respc.Conn
}

func (w *worker) connect() error {
	if w.s == nil || !w.s.Alive() {
		s, err := srv.Start(srv.Opts{Bin: w.bin, Args: []string{"--appendonly", "no"}})
		if err != nil {
			return err
		}
		w.s = s
		w.c = nil
	}
	if w.c == nil {
		c, err := respc.Dial(w.s.Addr(), 5*time.Second)
		if err != nil {
			return err
		}
		c.Timeout = 30 * time.Second
		w.c = c
	}
	return nil
}

// do sends one command; on i/o trouble the run becomes inconclusive (C13 is not
// about crashes) and the server is replaced.
func (w *worker) do(d *dataset, args ...string) (respc.Reply, bool) {
	r, err := w.c.Do(args...)
	if err == nil {
		return r, true
	}
	time.Sleep(50 * time.Millisecond)
	why := fmt.Sprintf("i/o error on %q: %v", trunc(args), err)
	if !w.s.Alive() {
		_, site := w.s.Crashed()
		why = fmt.Sprintf("server died on %q: %s", trunc(args), site)
	}
	w.ctx.Inconclusive(why)
	w.ctx.Count("server_lost", 1)
	w.c.Close()
	w.c = nil
	w.s.Kill9()
	return respc.Reply{}, false
}

func trunc(a []string) []string {
	o := make([]string, len(a))
	for i, s := range a {
		if len(s) > 200 {
			s = s[:200] + "..."
		}
		o[i] = s
	}
	return o
}

func (w *worker) set(d *dataset, id string, o geo.Obj) bool {
	cmd := append([]string{"SET", d.key, id}, o.Args...)
	d.log = append(d.log, cmd)
	r, ok := w.do(d, cmd...)
	if !ok {
		return false
	}
	if r.IsErr() {
		w.ctx.Inconclusive(fmt.Sprintf("SET rejected a generated object: %s for %q", r.Str, trunc(cmd)))
		return false
	}
	if old, had := d.objs[id]; had && old.HasRect {
		d.ghost = append(d.ghost, old.Rect)
	}
	d.objs[id] = &mobj{Obj: o, id: id}
	return true
}

func (w *worker) del(d *dataset, id string) bool {
	cmd := []string{"DEL", d.key, id}
	d.log = append(d.log, cmd)
	if _, ok := w.do(d, cmd...); !ok {
		return false
	}
	if old, had := d.objs[id]; had && old.HasRect {
		d.ghost = append(d.ghost, old.Rect)
	}
	delete(d.objs, id)
	return true
}

// build drives a random history on a fresh key.
func (w *worker) build(d *dataset, rng *rand.Rand, thorough bool) bool {
	target := []int{3, 8, 20, 50, 90, 150, 260}[rng.Intn(7)]
	if thorough && rng.Intn(6) == 0 {
		target = 400 + rng.Intn(400)
	}
	nids := target + target/3 + 2
	pointsOnly := rng.Intn(4) == 0
	pick := func() geo.Obj {
		switch rng.Intn(25) {
		case 0:
			return d.gen.Object("string")
		case 1:
			// an empty geometry: stored, never indexed, and a predecessor for later overwrites
			return d.gen.Object("empty")
		}
		if pointsOnly {
			return d.gen.Object("point")
		}
		return d.gen.Object(spatialKinds[rng.Intn(len(spatialKinds))])
	}
	id := func() string { return "o" + strconv.Itoa(rng.Intn(nids)) }
	nops := target*2 + rng.Intn(target+1)
	dropAt := -1
	if rng.Intn(3) == 0 {
		dropAt = rng.Intn(nops/2 + 1)
	}
	for i := 0; i < nops; i++ {
		switch x := rng.Intn(100); {
		case x < 55: // insert or overwrite (other kind / move)
			if !w.set(d, id(), pick()) {
				return false
			}
		case x < 70: // move: same kind, new place
			k := id()
			if old, ok := d.objs[k]; ok {
				if !w.set(d, k, d.gen.Object(old.Kind)) {
					return false
				}
			} else if !w.set(d, k, pick()) {
				return false
			}
		case x < 78: // exact duplicate of an existing object under another id
			if len(d.objs) > 0 {
				ids := make([]string, 0, len(d.objs))
				for k := range d.objs {
					ids = append(ids, k)
				}
				sort.Strings(ids)
				src := d.objs[ids[rng.Intn(len(ids))]]
				if !w.set(d, id(), src.Obj) {
					return false
				}
			}
		default:
			if !w.del(d, id()) {
				return false
			}
		}
		if i == dropAt && len(d.objs) > 0 { // drop, then recreate by the remaining history
			cmd := []string{"DROP", d.key}
			d.log = append(d.log, cmd)
			if _, ok := w.do(d, cmd...); !ok {
				return false
			}
			dropped := make([]string, 0, len(d.objs))
			for k := range d.objs {
				dropped = append(dropped, k)
			}
			sort.Strings(dropped)
			for _, k := range dropped {
				if o := d.objs[k]; o.HasRect {
					d.ghost = append(d.ghost, o.Rect)
				}
			}
			d.objs = map[string]*mobj{}
		}
	}
	// shrink phase for some datasets: delete most objects so that the tree collapses
	if rng.Intn(4) == 0 {
		ids := make([]string, 0, len(d.objs))
		for k := range d.objs {
			ids = append(ids, k)
		}
		sort.Strings(ids)
		rng.Shuffle(len(ids), func(i, j int) { ids[i], ids[j] = ids[j], ids[i] })
		keep := 1 + rng.Intn(10)
		for i := keep; i < len(ids); i++ {
			if !w.del(d, ids[i]) {
				return false
			}
		}
	}
	h := fnv.New64a()
	ids := make([]string, 0, len(d.objs))
	for k := range d.objs {
		ids = append(ids, k)
	}
	sort.Strings(ids)
	for _, k := range ids {
		h.Write([]byte(k))
		for _, a := range d.objs[k].Args {
			h.Write([]byte(a))
		}
	}
	d.hash = fmt.Sprintf("%08x", h.Sum64()&0xffffffff)
	return true
}

// verifyModel compares ids and bounding rectangles of the model with the
// server's (SCAN ... BOUNDS): a difference is model drift, not a NEARBY defect.
func (w *worker) verifyModel(d *dataset) bool {
	r, ok := w.do(d, "SCAN", d.key, "LIMIT", "10000000", "BOUNDS")
	if !ok {
		return false
	}
	if r.Kind != '*' || len(r.Arr) != 2 {
		if len(d.objs) == 0 {
			return true
		}
		w.ctx.Inconclusive("unexpected SCAN reply " + r.String())
		return false
	}
	seen := map[string]bool{}
	for _, e := range r.Arr[1].Arr {
		if len(e.Arr) < 2 {
			continue
		}
		id := e.Arr[0].Str
		seen[id] = true
		o, ok := d.objs[id]
		if !ok {
			w.ctx.Inconclusive(fmt.Sprintf("model drift: server has id %q the model does not (dataset %d)", id, d.idx))
			return false
		}
		if !o.HasRect {
			continue
		}
		b := e.Arr[1].Arr
		if len(b) != 2 || len(b[0].Arr) != 2 || len(b[1].Arr) != 2 {
			continue
		}
		f := func(x respc.Reply) float64 { v, _ := strconv.ParseFloat(x.Str, 64); return v }
		got := geo.Rect{MinLat: f(b[0].Arr[0]), MinLon: f(b[0].Arr[1]), MaxLat: f(b[1].Arr[0]), MaxLon: f(b[1].Arr[1])}
		if got != o.Rect {
			w.ctx.Inconclusive(fmt.Sprintf("model drift: bbox of %q (%s): model %+v server %+v args %q", id, o.Kind, o.Rect, got, trunc(o.Args)))
			return false
		}
	}
	for id, o := range d.objs {
		if !seen[id] && o.Spatial {
			w.ctx.Inconclusive(fmt.Sprintf("model drift: server lacks id %q (dataset %d)", id, d.idx))
			return false
		}
	}
	return true
}

// idxDown / idxUp re-state the documented float64 -> float32 "outward" rounding of
// index rectangles (multiply by 1 -+ 2^-23 when the nearest float32 is on the wrong
// side). They are used only to NAME a scenario class, never for a verdict: for a
// latitude between 0.42 m and 0.85 m from a pole (or a longitude within ~1.7 m of
// +-180) the multiplication overshoots by two float32 steps and the index rectangle
// reaches beyond +-90 (+-180) degrees.
func idxDown(d float64) float32 {
	f := float32(d)
	if float64(f) > d {
		if d < 0 {
			f = float32(d * (1.0 + 1.0/8388608.0))
		} else {
			f = float32(d * (1.0 - 1.0/8388608.0))
		}
	}
	return f
}

func idxUp(d float64) float32 {
	f := float32(d)
	if float64(f) < d {
		if d < 0 {
			f = float32(d * (1.0 - 1.0/8388608.0))
		} else {
			f = float32(d * (1.0 + 1.0/8388608.0))
		}
	}
	return f
}

func beyondRange(r geo.Rect) bool {
	return idxDown(r.MinLat) < -90 || idxUp(r.MaxLat) > 90 || idxDown(r.MinLon) < -180 || idxUp(r.MaxLon) > 180
}

type hit struct {
	id     string
	rep    float64 // reported distance
	hasRep bool
	oracle float64
}

type query struct {
	kind   string // how the query point was chosen
	lat    float64
	lon    float64
	k      int
	radius float64 // <0: none
	dist   bool
}

func (q query) args(key string) []string {
	a := []string{"NEARBY", key, "LIMIT", strconv.Itoa(q.k)}
	if q.dist {
		a = append(a, "DISTANCE")
	}
	a = append(a, "IDS", "POINT", geo.F(q.lat), geo.F(q.lon))
	if q.radius >= 0 {
		a = append(a, geo.F(q.radius))
	}
	return a
}

func bucket(n int) string {
	switch {
	case n == 0:
		return "0"
	case n == 1:
		return "1"
	case n <= 4:
		return "2-4"
	case n <= 16:
		return "5-16"
	case n <= 64:
		return "17-64"
	}
	return "65+"
}

// genQuery draws one query.
func genQuery(rng *rand.Rand, d *dataset, sp []*mobj) query {
	var q query
	n := len(sp)
	pickObj := func() *mobj { return sp[rng.Intn(n)] }
	switch x := rng.Intn(100); {
	case n == 0 || x < 15:
		q.kind = "region"
		q.lat, q.lon = d.gen.RawLatLon()
	case x < 25:
		q.kind = "world"
		q.lat, q.lon = rng.Float64()*180-90, rng.Float64()*360-180
	case x < 40: // exactly at an object's corner
		o := pickObj()
		q.kind = "at-object"
		q.lat, q.lon = o.Rect.MinLat, o.Rect.MinLon
		if rng.Intn(2) == 0 {
			q.lat, q.lon = o.Rect.MaxLat, o.Rect.MaxLon
		}
	case x < 55: // inside a rectangle
		o := pickObj()
		q.kind = "inside"
		q.lat = o.Rect.MinLat + (o.Rect.MaxLat-o.Rect.MinLat)*rng.Float64()
		q.lon = o.Rect.MinLon + (o.Rect.MaxLon-o.Rect.MinLon)*rng.Float64()
	case x < 80: // close to an object: metres to kilometres away
		o := pickObj()
		q.kind = "near"
		off := []float64{1e-7, 1e-5, 1e-3, 0.02, 0.5}[rng.Intn(5)]
		q.lat = o.Rect.MinLat + (rng.Float64()*2-1)*off
		q.lon = o.Rect.MaxLon + (rng.Float64()*2-1)*off
	case x < 86:
		q.kind = "pole"
		q.lat = 90
		if rng.Intn(2) == 0 {
			q.lat = -90
		}
		q.lon = rng.Float64()*360 - 180
	case x < 92:
		q.kind = "antimeridian"
		q.lat = rng.Float64()*180 - 90
		q.lon = 180
		if rng.Intn(2) == 0 {
			q.lon = -180
		}
		if rng.Intn(2) == 0 {
			o := pickObj()
			q.lat = o.Rect.MinLat
		}
	case x < 96 && len(d.ghost) > 0: // where something used to be
		g := d.ghost[rng.Intn(len(d.ghost))]
		q.kind = "ghost"
		q.lat, q.lon = g.MinLat, g.MinLon
	default: // far side of the globe from an object
		o := pickObj()
		q.kind = "antipode"
		q.lat = -o.Rect.MinLat + (rng.Float64()*2-1)*0.5
		q.lon = o.Rect.MinLon + 180 + (rng.Float64()*2-1)*0.5
	}
	if q.lon > 180 {
		q.lon -= 360
	}
	if q.lon < -180 {
		q.lon += 360
	}
	q.lat = math.Max(-90, math.Min(90, q.lat))
	q.dist = rng.Intn(5) != 0
	q.radius = -1
	q.k = n + 10
	return q
}

// judge checks one reply. It returns the violation key ("" = fine) and text.
func judge(q query, sp []*mobj, byID map[string]*mobj, odist map[string]float64, hits []hit) (string, string) {
	seen := map[string]bool{}
	for _, h := range hits {
		if _, ok := byID[h.id]; !ok {
			return "nearby:unknown-id", fmt.Sprintf("returned id %q is not a spatial object of the collection", h.id)
		}
		if seen[h.id] {
			return "nearby:duplicate", fmt.Sprintf("id %q returned twice", h.id)
		}
		seen[h.id] = true
	}
	for _, h := range hits {
		if h.hasRep && !geo.Close(h.rep, h.oracle) {
			kind := "point"
			if !byID[h.id].Rect.IsPoint() {
				kind = "rect"
			}
			return "nearby:distance-" + kind, fmt.Sprintf("DISTANCE of %q (%s, bbox %+v) reported %v, oracle %v", h.id, byID[h.id].Kind, byID[h.id].Rect, h.rep, h.oracle)
		}
	}
	for i := 0; i+1 < len(hits); i++ {
		if geo.Cmp(hits[i].oracle, hits[i+1].oracle) > 0 {
			return "nearby:order", fmt.Sprintf("%q at %v m is returned before %q at %v m", hits[i].id, hits[i].oracle, hits[i+1].id, hits[i+1].oracle)
		}
		if hits[i].hasRep && hits[i+1].hasRep && geo.Cmp(hits[i].rep, hits[i+1].rep) > 0 {
			return "nearby:order", fmt.Sprintf("reported distances decrease: %q %v then %q %v", hits[i].id, hits[i].rep, hits[i+1].id, hits[i+1].rep)
		}
	}
	if q.radius < 0 {
		want := q.k
		if len(sp) < want {
			want = len(sp)
		}
		if len(hits) != want {
			return "nearby:knn-count", fmt.Sprintf("LIMIT %d on %d spatial objects returned %d", q.k, len(sp), len(hits))
		}
		if len(hits) > 0 {
			far := 0.0
			for _, h := range hits {
				far = math.Max(far, h.oracle)
			}
			for _, o := range sp {
				if !seen[o.id] && geo.Cmp(odist[o.id], far) < 0 {
					return "nearby:knn-missed", fmt.Sprintf("%q at %v m was not returned although the farthest of the %d returned is at %v m", o.id, odist[o.id], len(hits), far)
				}
			}
		}
	} else {
		for _, h := range hits {
			if geo.Cmp(h.oracle, q.radius) > 0 {
				return "nearby:radius-outside", fmt.Sprintf("%q at %v m returned for radius %v", h.id, h.oracle, q.radius)
			}
		}
		for _, o := range sp {
			if !seen[o.id] && geo.Cmp(odist[o.id], q.radius) < 0 {
				return "nearby:radius-missed", fmt.Sprintf("%q at %v m missing for radius %v (LIMIT %d, %d returned)", o.id, odist[o.id], q.radius, q.k, len(hits))
			}
		}
	}
	return "", ""
}

func parseHits(r respc.Reply, withDist bool) ([]hit, error) {
	if r.Kind != '*' || len(r.Arr) != 2 || r.Arr[1].Kind != '*' {
		return nil, fmt.Errorf("unexpected reply shape %s", r.String())
	}
	var hits []hit
	for _, e := range r.Arr[1].Arr {
		if withDist {
			if e.Kind != '*' || len(e.Arr) != 2 {
				return nil, fmt.Errorf("unexpected element %s", e.String())
			}
			v, err := strconv.ParseFloat(e.Arr[1].Str, 64)
			if err != nil {
				return nil, fmt.Errorf("unparsable distance %q", e.Arr[1].Str)
			}
			hits = append(hits, hit{id: e.Arr[0].Str, rep: v, hasRep: true})
		} else {
			if e.Kind == '*' {
				return nil, fmt.Errorf("unexpected element %s", e.String())
			}
			hits = append(hits, hit{id: e.Str})
		}
	}
	return hits, nil
}

func (w *worker) runDataset(idx int) {
	ctx := w.ctx
	rng := ctx.SubRng(int64(idx))
	if err := w.connect(); err != nil {
		ctx.Inconclusive("cannot start server: " + err.Error())
		return
	}
	reg := geo.RandomRegion(rng)
	d := &dataset{idx: idx, key: fmt.Sprintf("c13_%d", idx), objs: map[string]*mobj{}, reg: reg, gen: &geo.Gen{Rng: rng, Reg: reg}}
	if _, ok := w.do(d, "DROP", d.key); !ok {
		return
	}
	if !w.build(d, rng, ctx.Thorough()) {
		return
	}
	if !w.verifyModel(d) {
		return
	}
	defer w.c.Do("DROP", d.key)
	sp := d.spatial()
	byID := map[string]*mobj{}
	for _, o := range sp {
		byID[o.id] = o
		ctx.Count("objkind_"+o.Kind, 1)
	}
	ctx.Count("datasets", 1)
	poleOverflow := 0
	for _, o := range sp {
		if beyondRange(o.Rect) {
			poleOverflow++
		}
	}
	if poleOverflow > 0 {
		ctx.Count("datasets_with_index_rect_out_of_range", 1)
	}
	ctx.Count("region_"+reg.Name, 1)
	if len(sp) > 64 {
		ctx.Count("datasets_multilevel_tree", 1)
	}
	nq := ctx.Pick(40, 100)
	reported := 0
	for qi := 0; qi < nq; qi++ {
		q := genQuery(rng, d, sp)
		odist := make(map[string]float64, len(sp))
		ds := make([]float64, 0, len(sp))
		for _, o := range sp {
			v := geo.PointRectDist(q.lat, q.lon, o.Rect)
			odist[o.id] = v
			ds = append(ds, v)
		}
		sort.Float64s(ds)
		// choose k / radius relative to the oracle's distances
		mode := "knn"
		switch x := rng.Intn(10); {
		case x < 4 || len(sp) == 0:
			q.k = 1 + rng.Intn(len(sp)+1)
			if rng.Intn(4) == 0 {
				q.k = len(sp) + 1 + rng.Intn(3)
			}
		case x < 5:
			q.k = len(sp) + 1 + rng.Intn(3)
		default:
			mode = "radius"
			t := ds[rng.Intn(len(ds))]
			f := []float64{1e-4, 1e-3, 0.01, 0.3}[rng.Intn(4)]
			if rng.Intn(2) == 0 {
				q.radius = t * (1 + f)
			} else {
				q.radius = t * (1 - f)
			}
			if rng.Intn(8) == 0 {
				q.radius = rng.Float64() * 2.1e7
			}
			if !(q.radius > 0) {
				q.radius = 1 + rng.Float64()*1000
			}
			// the textual radius is what the server sees
			q.radius, _ = strconv.ParseFloat(geo.F(q.radius), 64)
			q.k = len(sp) + 10
		}
		args := q.args(d.key)
		r, ok := w.do(d, args...)
		if !ok {
			return
		}
		if r.IsErr() {
			ctx.Inconclusive(fmt.Sprintf("NEARBY rejected: %s for %q", r.Str, args))
			return
		}
		hits, err := parseHits(r, q.dist)
		if err != nil {
			// the reply is syntactically valid RESP (the client parsed it) but an element does not have
			// the form the options ask for (an id without its distance under DISTANCE, a pair without
			// DISTANCE): that is the server's answer, not a failure of the machinery
			reported++
			if reported <= 2 {
				ctx.Violation("nearby:reply-shape", fmt.Sprintf("dataset %d (%s, %d spatial objects) query %q: %v (DISTANCE requested: %v)", idx, reg.Name, len(sp), args, err, q.dist),
					map[string]any{"commands": append(append([][]string{}, d.log...), args), "query": args, "reply": r.String()})
			}
			if ctx.Violations() > 20 {
				return
			}
			continue
		}
		for i := range hits {
			hits[i].oracle = odist[hits[i].id]
		}
		ctx.Eval(1)
		ctx.Count("queries_"+mode, 1)
		ctx.Count("qpoint_"+q.kind, 1)
		if key, what := judge(q, sp, byID, odist, hits); key != "" {
			if poleOverflow > 0 && (key == "nearby:order" || key == "nearby:knn-missed" || key == "nearby:radius-missed") {
				// scenario class: the collection holds objects whose float32 index rectangle reaches
				// beyond a pole or the antimeridian; the best-first traversal's node distance is then
				// not a lower bound of the distances of the objects below the node
				key = "nearby:index-rect-out-of-range"
				what += fmt.Sprintf(" [%d objects of the collection have a float32 index rectangle beyond +-90/+-180 deg]", poleOverflow)
			}
			var got [][2]string
			for _, h := range hits {
				got = append(got, [2]string{h.id, geo.F(h.rep)})
			}
			if len(got) > 60 {
				got = got[:60]
			}
			exp := map[string]float64{}
			for _, h := range hits {
				exp[h.id] = h.oracle
			}
			reported++
			if reported > 2 {
				continue // at most two reports per dataset
			}
			ctx.Violation(key, fmt.Sprintf("dataset %d (%s, %d spatial objects) query %q: %s", idx, reg.Name, len(sp), args, what),
				map[string]any{"commands": append(append([][]string{}, d.log...), args), "query": args, "got_first60": got, "oracle_distance_of_returned": exp, "oracle": "haversine on R=6371e3 to the bounding rectangle, band rel 1e-6 + 1e-6 m"})
			if ctx.Violations() > 20 {
				return
			}
			continue
		}
		if q.dist && len(hits) > 0 && qi%5 == 0 {
			// "does not exceed": the distance the server itself reports for an object, used as the
			// radius (the same digits back), still includes that object
			h := hits[len(hits)/2]
			// (only where no other object lies within the index's float32 resolution of that distance:
			// there the traversal order, and with it the cut-off, is decided by rounded rectangles -
			// the same regime as the tolerance band of the ordering oracle)
			lonely := true
			for _, o := range sp {
				if o.id != h.id && math.Abs(odist[o.id]-h.oracle) <= 2+1e-5*h.oracle {
					lonely = false
					break
				}
			}
			if h.hasRep && h.rep > 0 && lonely {
				q2 := q
				q2.radius, q2.k, q2.dist = h.rep, len(sp)+10, true
				a2 := []string{"NEARBY", d.key, "LIMIT", strconv.Itoa(q2.k), "DISTANCE", "IDS", "POINT", geo.F(q.lat), geo.F(q.lon), strconv.FormatFloat(h.rep, 'f', -1, 64)}
				if r2, ok := w.do(d, a2...); ok && !r2.IsErr() {
					if h2, err := parseHits(r2, true); err == nil {
						found := false
						for _, x := range h2 {
							if x.id == h.id {
								found = true
							}
						}
						ctx.Eval(1)
						ctx.Count("queries_radius_equal_to_reported_distance", 1)
						if !found {
							reported++
							if reported <= 2 {
								ctx.Violation("nearby:radius-excludes-equal-distance", fmt.Sprintf("dataset %d (%s): %q reports %q at %s m; %q (that distance as the radius) does not return it", idx, reg.Name, args, h.id, strconv.FormatFloat(h.rep, 'f', -1, 64), a2),
									map[string]any{"commands": append(append([][]string{}, d.log...), a2), "query": a2, "id": h.id})
							}
							continue
						}
					}
				}
			}
		}
		distinctD := 0
		for i := range ds {
			if i == 0 || geo.Cmp(ds[i-1], ds[i]) != 0 {
				distinctD++
			}
		}
		if distinctD >= 2 && len(hits) > 0 {
			b := bucket(len(hits))
			if mode == "radius" {
				b = "r" + b
			}
			ctx.Distinct(d.hash + "|" + q.kind + "|" + mode + "|" + b)
		}
		if idx < 4 && len(hits) >= 2 && distinctD >= 2 && qi%10 == 3 {
			var first []any
			for i, h := range hits {
				if i >= 3 {
					break
				}
				first = append(first, map[string]any{"id": h.id, "reported": h.rep, "oracle": h.oracle})
			}
			ctx.Sample(map[string]any{"query": args, "spatial_objects": len(sp), "returned": len(hits), "first": first})
		}
	}
}

// Run is the C13 check.
func Run(ctx *core.Ctx) {
	ctx.Rule = "each dataset is built on a fresh key by a PRNG history (insert, overwrite with another kind, move, exact duplicates, delete, drop+recreate, optional mass delete) of points/rectangles/lines/polygons/multi-geometries/features (and, as predecessors of overwrites, strings and empty geometries) in one region class (world, local cluster down to 1e-7 deg, poles, antimeridian, around 0,0) with float32-hostile coordinates; then NEARBY key LIMIT k [DISTANCE] IDS POINT lat lon [r] for query points at/inside/near objects, poles, +-180, antipodes, former positions; k in 1..n+3 or radius on both sides (1e-4..0.3 relative) of an object's oracle distance. The oracle is geo (haversine R=6371e3; numeric point-to-bounding-rectangle distance) on the coordinates the harness generated; judged outside a band of 1e-6 relative + 1e-6 m: order, DISTANCE agreement, count and no closer unreturned object for k-nearest, exact membership for radius. non-trivial = query over >= 2 distinct oracle distances with a non-empty reply; distinct key = (dataset hash, query point kind, knn|radius, result size bucket)"
	ctx.Assumptions = []string{
		"coordinates finite and inside [-90,90]x[-180,180]; no HASH objects (their position is a decoder output, not harness input)",
		"radius queries use LIMIT > n so that LIMIT does not truncate; radius 0 is not used (the statement speaks of a positive radius)",
		"distances within 1e-6 relative + 1e-6 m of a bound are not judged",
		"the model's ids and bounding rectangles are compared with SCAN ... BOUNDS first; a difference is reported as inconclusive (model drift), not as a NEARBY violation",
	}
	ctx.MinDistinct = 20
	bin, err := srv.Build("plain")
	if err != nil {
		ctx.Fatal("%v", err)
	}
	nds := ctx.Pick(200, 2000)
	nw := 12
	var wg sync.WaitGroup
	next := make(chan int, nds)
	for i := 0; i < nds; i++ {
		next <- i
	}
	close(next)
	for wi := 0; wi < nw; wi++ {
		wg.Add(1)
		go func() {
			defer wg.Done()
			w := &worker{ctx: ctx, bin: bin}
			for idx := range next {
				if ctx.Violations() > 20 {
					return
				}
				w.runDataset(idx)
			}
			if w.c != nil {
				w.c.Close()
			}
			if w.s != nil {
				w.s.Kill9()
			}
		}()
	}
	wg.Wait()
}
