package c10

import (
	"fmt"
	"strconv"
	"time"

	"verifharness/core"
	"verifharness/respc"
	"verifharness/srv"
)

// dualSubscription: one connection holding an exact subscription and two
// pattern subscriptions that all match the same channel receives every
// message once per subscription (one `message`, two `pmessage`), in publish
// order; the same for notifications of a geofence channel.
func dualSubscription(ctx *core.Ctx, bin string) {
	s, err := srv.Start(srv.Opts{Bin: bin})
	if err != nil {
		ctx.Inconclusive("dual subscription: " + err.Error())
		return
	}
	defer s.Kill9()
	sub, err := respc.Dial(s.Addr(), 5*time.Second)
	if err != nil {
		ctx.Inconclusive("dual subscription: " + err.Error())
		return
	}
	defer sub.Close()
	pub, err := respc.Dial(s.Addr(), 5*time.Second)
	if err != nil {
		ctx.Inconclusive("dual subscription: " + err.Error())
		return
	}
	defer pub.Close()
	pub.Timeout = 20 * time.Second
	if r, err := pub.Do("SETCHAN", "news", "NEARBY", "dualk", "FENCE", "DETECT", "inside", "POINT", "1", "1", "100000"); err != nil || r.IsErr() {
		ctx.Inconclusive("dual subscription: SETCHAN failed")
		return
	}
	sub.Send("SUBSCRIBE", "news")
	sub.Send("PSUBSCRIBE", "n*", "*ws")
	for i := 0; i < 3; i++ {
		if r, err := sub.RecvTimeout(5 * time.Second); err != nil || r.Kind != '*' {
			ctx.Inconclusive("dual subscription: acknowledgements")
			return
		}
	}
	const n = 40
	for i := 0; i < n; i++ {
		var r respc.Reply
		var err error
		if i%2 == 0 {
			r, err = pub.Do("PUBLISH", "news", "m-"+strconv.Itoa(i))
		} else {
			r, err = pub.Do("SET", "dualk", "o", "FIELD", "tok", strconv.Itoa(i), "POINT", "1", "1")
		}
		if err != nil || r.IsErr() {
			ctx.Inconclusive("dual subscription: publisher i/o")
			return
		}
	}
	type got struct{ message, pmessage int }
	seen := map[int]*got{}
	var order []int
	dl := time.Now().Add(15 * time.Second)
	total := 0
	for total < 3*n && time.Now().Before(dl) {
		r, err := sub.RecvTimeout(2 * time.Second)
		if err != nil {
			if respc.IsTimeout(err) {
				break
			}
			ctx.Inconclusive("dual subscription: subscriber i/o")
			return
		}
		if r.Kind != '*' || len(r.Arr) < 3 {
			continue
		}
		kind := r.Arr[0].Str
		payload := r.Arr[len(r.Arr)-1].Str
		idx := -1
		if len(payload) > 2 && payload[:2] == "m-" {
			idx, _ = strconv.Atoi(payload[2:])
		} else if k := indexOf(payload, `"tok":`); k >= 0 {
			j := k + 6
			e := j
			for e < len(payload) && payload[e] >= '0' && payload[e] <= '9' {
				e++
			}
			idx, _ = strconv.Atoi(payload[j:e])
		}
		if idx < 0 {
			continue
		}
		g := seen[idx]
		if g == nil {
			g = &got{}
			seen[idx] = g
			order = append(order, idx)
		}
		if kind == "message" {
			g.message++
		} else if kind == "pmessage" {
			g.pmessage++
		}
		total++
	}
	ctx.Eval(1)
	ctx.Count("dual_subscription_messages", int64(total))
	ctx.Distinct("dual-subscription|exact+2patterns")
	for i := 0; i < n; i++ {
		g := seen[i]
		if g == nil {
			g = &got{}
		}
		if g.message != 1 || g.pmessage != 2 {
			what := "PUBLISH news m-" + strconv.Itoa(i)
			if i%2 == 1 {
				what = "the geofence notification of SET dualk o FIELD tok " + strconv.Itoa(i)
			}
			ctx.Violation("lost:multi-subscription", fmt.Sprintf("a connection subscribed to the channel `news` and to the patterns `n*` and `*ws` received %d `message` and %d `pmessage` frames for %s; one per subscription is due (1 and 2)", g.message, g.pmessage, what),
				map[string]any{"subscriber": [][]string{{"SUBSCRIBE", "news"}, {"PSUBSCRIBE", "n*", "*ws"}}, "message_index": i})
			return
		}
	}
	for i := 1; i < len(order); i++ {
		if order[i] < order[i-1] {
			ctx.Violation("reordered:multi-subscription", fmt.Sprintf("message %d arrived before message %d on a connection with three matching subscriptions", order[i-1], order[i]), nil)
			return
		}
	}
}

func indexOf(s, sub string) int {
	for i := 0; i+len(sub) <= len(s); i++ {
		if s[i:i+len(sub)] == sub {
			return i
		}
	}
	return -1
}

// unsubscribeProbe: one connection holds the channel `news`, the pattern `n*`
// and a pattern spelled like the channel (`news`). Each unsubscribe removes
// exactly the subscription it names - the pattern table for PUNSUBSCRIBE, the
// channel table for UNSUBSCRIBE - and the connection keeps receiving through
// the others.
func unsubscribeProbe(ctx *core.Ctx, bin string) {
	s, err := srv.Start(srv.Opts{Bin: bin})
	if err != nil {
		ctx.Inconclusive("unsubscribe probe: " + err.Error())
		return
	}
	defer s.Kill9()
	sub, err1 := respc.Dial(s.Addr(), 5*time.Second)
	pub, err2 := respc.Dial(s.Addr(), 5*time.Second)
	if err1 != nil || err2 != nil {
		ctx.Inconclusive("unsubscribe probe: dial")
		return
	}
	defer sub.Close()
	defer pub.Close()
	step := func(cmd []string, acks int) bool {
		sub.Send(cmd...)
		for i := 0; i < acks; i++ {
			if r, err := sub.RecvTimeout(5 * time.Second); err != nil || r.Kind != '*' {
				ctx.Inconclusive(fmt.Sprintf("unsubscribe probe: no acknowledgement of %q", cmd))
				return false
			}
		}
		return true
	}
	if !step([]string{"SUBSCRIBE", "news"}, 1) || !step([]string{"PSUBSCRIBE", "n*", "news"}, 2) {
		return
	}
	type exp struct {
		after []string // command sent before the PUBLISH (nil: none)
		want  string   // frames due, sorted: m = message, p:<pattern> = pmessage
	}
	steps := []exp{
		{nil, "m p:n* p:news"},
		{[]string{"PUNSUBSCRIBE", "news"}, "m p:n*"},
		{[]string{"UNSUBSCRIBE", "news"}, "p:n*"},
		{[]string{"SUBSCRIBE", "news"}, "m p:n*"},
		{[]string{"PUNSUBSCRIBE", "n*"}, "m"},
	}
	history := ""
	for i, st := range steps {
		if st.after != nil {
			if !step(st.after, 1) {
				return
			}
			history += fmt.Sprintf("%q; ", st.after)
		}
		payload := "u-" + strconv.Itoa(i)
		if r, err := pub.Do("PUBLISH", "news", payload); err != nil || r.IsErr() {
			ctx.Inconclusive("unsubscribe probe: PUBLISH failed")
			return
		}
		var got []string
		for {
			r, err := sub.RecvTimeout(600 * time.Millisecond)
			if err != nil {
				break
			}
			if r.Kind != '*' || len(r.Arr) < 3 || r.Arr[len(r.Arr)-1].Str != payload {
				continue
			}
			if r.Arr[0].Str == "message" {
				got = append(got, "m")
			} else if r.Arr[0].Str == "pmessage" {
				got = append(got, "p:"+r.Arr[1].Str)
			}
		}
		sortStrings(got)
		ctx.Eval(1)
		ctx.Distinct("unsubscribe|" + strconv.Itoa(i))
		if g := joinStrings(got); g != st.want {
			key := "lost:after-unsubscribe"
			if len(got) > len(splitFields(st.want)) {
				key = "extra:after-unsubscribe"
			}
			ctx.Violation(key, fmt.Sprintf("one connection after `SUBSCRIBE news`, `PSUBSCRIBE n* news`, %sthen `PUBLISH news %s`: received [%s], due [%s] (m = message, p:<pattern> = pmessage)", history, payload, g, st.want),
				map[string]any{"step": i, "got": g, "want": st.want})
			return
		}
	}
}

// foreignUnsubscribeProbe: X is the only subscriber of the channel `solo` and
// of the pattern `so*`. Another subscribed connection Y, which never
// subscribed to either, names them in UNSUBSCRIBE / PUNSUBSCRIBE. That removes
// nothing of X's: every later PUBLISH still reaches X once per subscription.
func foreignUnsubscribeProbe(ctx *core.Ctx, bin string) {
	s, err := srv.Start(srv.Opts{Bin: bin})
	if err != nil {
		ctx.Inconclusive("foreign unsubscribe probe: " + err.Error())
		return
	}
	defer s.Kill9()
	x, err1 := respc.Dial(s.Addr(), 5*time.Second)
	y, err2 := respc.Dial(s.Addr(), 5*time.Second)
	pub, err3 := respc.Dial(s.Addr(), 5*time.Second)
	if err1 != nil || err2 != nil || err3 != nil {
		ctx.Inconclusive("foreign unsubscribe probe: dial")
		return
	}
	defer x.Close()
	defer y.Close()
	defer pub.Close()
	ack := func(c *respc.Conn, cmd []string, acks int) bool {
		c.Send(cmd...)
		for i := 0; i < acks; i++ {
			if r, err := c.RecvTimeout(5 * time.Second); err != nil || r.Kind != '*' {
				ctx.Inconclusive(fmt.Sprintf("foreign unsubscribe probe: no acknowledgement of %q", cmd))
				return false
			}
		}
		return true
	}
	if !ack(x, []string{"SUBSCRIBE", "solo"}, 1) || !ack(x, []string{"PSUBSCRIBE", "so*"}, 1) || !ack(y, []string{"SUBSCRIBE", "other"}, 1) {
		return
	}
	steps := [][]string{nil, {"UNSUBSCRIBE", "solo"}, {"PUNSUBSCRIBE", "so*"}, {"UNSUBSCRIBE", "solo", "other"}}
	history := ""
	for i, cmd := range steps {
		if cmd != nil {
			// whatever Y is answered (an acknowledgement per name or an error), it is drained before the PUBLISH
			y.Send(cmd...)
			for {
				if _, err := y.RecvTimeout(300 * time.Millisecond); err != nil {
					break
				}
			}
			history += fmt.Sprintf("%q; ", cmd)
		}
		payload := "f-" + strconv.Itoa(i)
		if r, err := pub.Do("PUBLISH", "solo", payload); err != nil || r.IsErr() {
			ctx.Inconclusive("foreign unsubscribe probe: PUBLISH failed")
			return
		}
		var got []string
		for {
			r, err := x.RecvTimeout(600 * time.Millisecond)
			if err != nil {
				break
			}
			if r.Kind != '*' || len(r.Arr) < 3 || r.Arr[len(r.Arr)-1].Str != payload {
				continue
			}
			if r.Arr[0].Str == "message" {
				got = append(got, "m")
			} else if r.Arr[0].Str == "pmessage" {
				got = append(got, "p:"+r.Arr[1].Str)
			}
		}
		sortStrings(got)
		ctx.Eval(1)
		ctx.Distinct("foreign-unsubscribe|" + strconv.Itoa(i))
		if g := joinStrings(got); g != "m p:so*" {
			key := "lost:after-foreign-unsubscribe"
			if len(got) > 2 {
				key = "extra:after-foreign-unsubscribe"
			}
			ctx.Violation(key, fmt.Sprintf("X after `SUBSCRIBE solo`, `PSUBSCRIBE so*`; another subscribed connection Y (`SUBSCRIBE other`) sent %sthen `PUBLISH solo %s`: X received [%s], due [m p:so*] (m = message, p:<pattern> = pmessage)", history, payload, g),
				map[string]any{"step": i, "got": g, "want": "m p:so*"})
			return
		}
	}
}

func sortStrings(a []string) {
	for i := 1; i < len(a); i++ {
		for j := i; j > 0 && a[j] < a[j-1]; j-- {
			a[j], a[j-1] = a[j-1], a[j]
		}
	}
}

func joinStrings(a []string) string {
	out := ""
	for i, x := range a {
		if i > 0 {
			out += " "
		}
		out += x
	}
	return out
}

func splitFields(s string) []string {
	var out []string
	cur := ""
	for _, c := range s {
		if c == ' ' {
			if cur != "" {
				out = append(out, cur)
			}
			cur = ""
			continue
		}
		cur += string(c)
	}
	if cur != "" {
		out = append(out, cur)
	}
	return out
}
