// Package c10: notifications and pub/sub — nothing lost, nothing duplicated, in
// write order. DESIGN.md section 4, C10.
package c10

import (
	"fmt"
	"strconv"
	"strings"
	"sync"
	"time"

	"verifharness/aoflog"
	"verifharness/core"
	"verifharness/notif"
	"verifharness/respc"
	"verifharness/srv"
)

const world = "-90 -180 90 180"

func fence(detect string, extra ...string) []string {
	a := append([]string{"WITHIN", "fleet"}, extra...)
	a = append(a, "FENCE", "DETECT", detect, "BOUNDS")
	return append(a, strings.Fields(world)...)
}

type wop struct {
	tok       string
	id        string
	call, ret time.Time
	acked     bool
}

func tokOf(m notif.Msg) string {
	if m.J == nil {
		return ""
	}
	f, _ := m.J["fields"].(map[string]any)
	if f == nil {
		return ""
	}
	switch v := f["tok"].(type) {
	case string:
		return v
	case float64:
		return strconv.FormatFloat(v, 'f', -1, 64)
	}
	return ""
}

func isMarkerID(m notif.Msg) bool { return strings.HasPrefix(m.ID(), "marker:") }

// exactSeq: got must equal want exactly.
func exactSeq(got, want []string) string {
	n := min(len(got), len(want))
	for i := 0; i < n; i++ {
		if got[i] != want[i] {
			// classify
			seen := map[string]int{}
			for _, g := range got[:i] {
				seen[g]++
			}
			if seen[got[i]] > 0 {
				return fmt.Sprintf("duplicate: position %d delivers %s again (expected %s)", i, got[i], want[i])
			}
			for j := i + 1; j < len(want); j++ {
				if want[j] == got[i] {
					return fmt.Sprintf("lost or reordered: position %d delivers %s, expected %s first (%d messages skipped)", i, got[i], want[i], j-i)
				}
			}
			return fmt.Sprintf("unexpected message %s at position %d (expected %s)", got[i], i, want[i])
		}
	}
	if len(got) < len(want) {
		return fmt.Sprintf("lost: %d of %d messages missing at the end, first missing %s", len(want)-len(got), len(want), want[len(got)])
	}
	if len(got) > len(want) {
		return fmt.Sprintf("extra: %d unexpected messages at the end, first %s", len(got)-len(want), got[len(want)])
	}
	return ""
}

// sliceSeq: got must be a contiguous slice want[i..j] with i <= mustFrom and j >= mustTo.
func sliceSeq(got, want []string, mustFrom, mustTo int) string {
	if mustFrom > mustTo {
		// nothing is required; got must still be a contiguous slice
		if len(got) == 0 {
			return ""
		}
	}
	idx := map[string]int{}
	for i, w := range want {
		idx[w] = i
	}
	if len(got) == 0 {
		if mustFrom <= mustTo {
			return fmt.Sprintf("lost: nothing received, but messages %d..%d (%s..%s) were caused after the subscription was acknowledged", mustFrom, mustTo, want[mustFrom], want[mustTo])
		}
		return ""
	}
	start, ok := idx[got[0]]
	if !ok {
		return "unexpected message " + got[0]
	}
	for k, g := range got {
		if start+k >= len(want) || want[start+k] != g {
			exp := "nothing"
			if start+k < len(want) {
				exp = want[start+k]
			}
			return fmt.Sprintf("gap, duplicate or reordering: message %d is %s, expected %s", k, g, exp)
		}
	}
	end := start + len(got) - 1
	if mustFrom <= mustTo {
		if start > mustFrom {
			return fmt.Sprintf("lost: first received is %s (position %d) but %s (position %d) was caused after the subscription was acknowledged", got[0], start, want[mustFrom], mustFrom)
		}
		if end < mustTo {
			return fmt.Sprintf("lost: last received is %s (position %d) but %s (position %d) was acknowledged before the subscriber left", got[len(got)-1], end, want[mustTo], mustTo)
		}
	}
	return ""
}

type scenarioCfg struct {
	writers, publishers int
	perWriter           int
	outage              string // none, refuse, 5xx, hang, refuse+5xx
	midSubs             int
	lives               int
	race                bool
}

func (c scenarioCfg) key() string {
	return fmt.Sprintf("w%d p%d outage=%s mid=%d lives=%d", c.writers, c.publishers, c.outage, c.midSubs, c.lives)
}

func runScenario(ctx *core.Ctx, bin string, idx int, cfg scenarioCfg) {
	r := ctx.SubRng(int64(idx) + 100000)
	var env []string
	dir := srv.NewDir()
	if cfg.race {
		env = append(env, "GORACE=halt_on_error=0 log_path="+dir+"/race")
	}
	s, err := srv.Start(srv.Opts{Bin: bin, Dir: dir, Env: env, ReadyTimeout: 120 * time.Second})
	if err != nil {
		ctx.Inconclusive(err.Error())
		return
	}
	defer s.Kill9()
	ep, err := notif.NewEndpoint()
	if err != nil {
		ctx.Inconclusive(err.Error())
		return
	}
	defer ep.Close()
	ep.KeepAttempts(true)
	ctl, err := respc.Dial(s.Addr(), 5*time.Second)
	if err != nil {
		ctx.Inconclusive(err.Error())
		return
	}
	defer ctl.Close()
	ctl.Timeout = 30 * time.Second
	setup := [][]string{
		append([]string{"SETCHAN", "c1"}, fence("inside")...),
		append([]string{"SETCHAN", "c2"}, fence("inside", "MATCH", "w0*")...),
		append([]string{"SETHOOK", "h1", ep.URL("/h1")}, fence("inside")...),
	}
	for _, c := range setup {
		if rep, err := ctl.Do(c...); err != nil || rep.IsErr() {
			ctx.Inconclusive(fmt.Sprintf("setup %v: %v %s", c, err, rep.String()))
			return
		}
	}
	var lives []*notif.Live
	for i := 0; i < cfg.lives; i++ {
		l, err := notif.OpenLive(s.Addr(), false, fence("inside")...)
		if err != nil {
			ctx.Inconclusive("live: " + err.Error())
			return
		}
		defer l.Close()
		lives = append(lives, l)
	}
	subA, err := notif.Subscribe(s.Addr(), []string{"c1", "c2", "pub"}, nil)
	if err != nil {
		ctx.Inconclusive("subscribe: " + err.Error())
		return
	}
	defer subA.Close()
	subP, err := notif.Subscribe(s.Addr(), nil, []string{"c*", "pu?"})
	if err != nil {
		ctx.Inconclusive("psubscribe: " + err.Error())
		return
	}
	defer subP.Close()

	var mu sync.Mutex
	var wops []*wop
	pubs := make([][]*wop, cfg.publishers)
	var wg sync.WaitGroup
	for w := 0; w < cfg.writers; w++ {
		wg.Add(1)
		go func(w int) {
			defer wg.Done()
			rr := ctx.SubRng(int64(idx)*100 + int64(w) + 101000)
			c, err := respc.Dial(s.Addr(), 5*time.Second)
			if err != nil {
				return
			}
			defer c.Close()
			c.Timeout = 60 * time.Second
			for i := 0; i < cfg.perWriter; i++ {
				o := &wop{tok: fmt.Sprintf("w%d-%d", w, i), id: fmt.Sprintf("w%d-%d", w, rr.Intn(3))}
				lat := strconv.FormatFloat(rr.Float64()*100-50, 'f', 4, 64)
				lon := strconv.FormatFloat(rr.Float64()*200-100, 'f', 4, 64)
				o.call = time.Now()
				rep, err := c.Do("SET", "fleet", o.id, "FIELD", "tok", o.tok, "POINT", lat, lon)
				o.ret = time.Now()
				o.acked = err == nil && rep.String() == "+OK"
				mu.Lock()
				wops = append(wops, o)
				mu.Unlock()
				if err != nil {
					return
				}
				if rr.Intn(8) == 0 {
					time.Sleep(time.Duration(rr.Intn(3)) * time.Millisecond)
				}
			}
		}(w)
	}
	for p := 0; p < cfg.publishers; p++ {
		wg.Add(1)
		go func(p int) {
			defer wg.Done()
			c, err := respc.Dial(s.Addr(), 5*time.Second)
			if err != nil {
				return
			}
			defer c.Close()
			c.Timeout = 60 * time.Second
			for i := 0; i < cfg.perWriter; i++ {
				o := &wop{tok: fmt.Sprintf("p%d-%d", p, i)}
				o.call = time.Now()
				rep, err := c.Do("PUBLISH", "pub", o.tok)
				o.ret = time.Now()
				o.acked = err == nil && !rep.IsErr()
				mu.Lock()
				pubs[p] = append(pubs[p], o)
				mu.Unlock()
				if err != nil {
					return
				}
			}
		}(p)
	}
	// subscribers that join and leave while traffic flows
	type midSub struct {
		sub          *notif.Sub
		ack, leaving time.Time
		msgs         []notif.Msg
		pattern      bool
	}
	mids := make([]*midSub, cfg.midSubs)
	var mwg sync.WaitGroup
	for m := 0; m < cfg.midSubs; m++ {
		mwg.Add(1)
		go func(m int) {
			defer mwg.Done()
			rr := ctx.SubRng(int64(idx)*100 + int64(m) + 102000)
			time.Sleep(time.Duration(5+rr.Intn(150)) * time.Millisecond)
			ms := &midSub{pattern: m%2 == 1}
			var sub *notif.Sub
			var err error
			if ms.pattern {
				sub, err = notif.Subscribe(s.Addr(), nil, []string{"c1", "pub"})
			} else {
				sub, err = notif.Subscribe(s.Addr(), []string{"c1", "pub"}, nil)
			}
			if err != nil {
				return
			}
			ms.sub = sub
			ms.ack = time.Now()
			time.Sleep(time.Duration(50+rr.Intn(400)) * time.Millisecond)
			ms.leaving = time.Now()
			// let the messages of writes acknowledged before `leaving` arrive: they were queued
			// before their replies were sent, and the reader drains the socket continuously
			time.Sleep(300 * time.Millisecond)
			ms.msgs = sub.S.Drain()
			sub.Close()
			mids[m] = ms
		}(m)
	}
	// webhook outage while traffic flows
	switch cfg.outage {
	case "refuse", "refuse+5xx":
		time.Sleep(time.Duration(20+r.Intn(100)) * time.Millisecond)
		ep.Refuse()
		time.Sleep(time.Duration(300+r.Intn(1200)) * time.Millisecond)
		if err := ep.Reopen(); err != nil {
			ctx.Inconclusive("endpoint reopen: " + err.Error())
			return
		}
		if cfg.outage == "refuse+5xx" {
			ep.Script("/h1", notif.Fail5xx, notif.Fail5xx)
		}
	case "5xx":
		time.Sleep(time.Duration(20+r.Intn(100)) * time.Millisecond)
		k := 1 + r.Intn(4)
		acts := make([]notif.Action, k)
		for i := range acts {
			acts[i] = notif.Fail5xx
		}
		ep.Script("/h1", acts...)
	case "hang":
		time.Sleep(time.Duration(20+r.Intn(100)) * time.Millisecond)
		ep.Script("/h1", notif.Hang)
		time.Sleep(6 * time.Second)
		ep.Release()
	}
	wg.Wait()
	mwg.Wait()
	if !s.Alive() {
		_, site := s.Crashed()
		ctx.Violation("runtime-fatal:"+site, "server died during the notification workload: "+site, map[string]any{"config": cfg.key(), "stderr": s.StderrTail(3000)})
		return
	}
	// markers
	mk, err := subA.Mark(ctl, "c1", "c2", "pub")
	if err != nil {
		ctx.Inconclusive("marker publish: " + err.Error())
		return
	}
	mkP := mk
	if rep, err := ctl.Do("SET", "fleet", "marker:1", "FIELD", "tok", "MARK", "POINT", "1", "1"); err != nil || rep.IsErr() {
		ctx.Inconclusive("marker object: " + fmt.Sprint(err, rep.String()))
		return
	}
	wo := notif.WaitOpts{Addr: s.Addr(), Watchdog: 40 * time.Second}
	byChanA, vA, whyA := subA.Collect(mk, []string{"c1", "c2", "pub"}, wo)
	// the pattern subscriber sees the same markers (published on c1, c2, pub)
	pm := subP.S
	var pmsgs []notif.Msg
	seenMarks := map[string]bool{}
	deadline := time.Now().Add(40 * time.Second)
	for len(seenMarks) < 3 && time.Now().Before(deadline) {
		for _, m := range pm.Drain() {
			if m.Raw == notif.MarkText(mkP) {
				seenMarks[m.Channel] = true
				continue
			}
			if isMarkerID(m) {
				continue
			}
			pmsgs = append(pmsgs, m)
		}
		time.Sleep(5 * time.Millisecond)
	}
	hookMsgs, vH, whyH := ep.Stream("/h1").Await(isMarkerID, wo)
	var liveMsgs [][]notif.Msg
	var vL []notif.Verdict
	for _, l := range lives {
		ms, v, _ := l.S.Await(isMarkerID, wo)
		liveMsgs = append(liveMsgs, ms)
		vL = append(vL, v)
	}
	// the order the writes were applied = their order in the log
	s.Term(20 * time.Second)
	entries, _, ok, err := aoflog.ReadFile(s.AOFPath())
	if err != nil || !ok {
		ctx.Inconclusive("cannot parse the log")
		return
	}
	var L []string
	pos := map[string]int{}
	for _, e := range entries {
		a := e.Args
		if len(a) >= 6 && strings.ToLower(a[0]) == "set" && a[1] == "fleet" && a[3] == "FIELD" && a[4] == "tok" && a[5] != "MARK" {
			pos[a[5]] = len(L)
			L = append(L, a[5])
		}
	}
	var L0 []string
	for _, t := range L {
		if strings.HasPrefix(t, "w0-") {
			L0 = append(L0, t)
		}
	}
	ctx.Eval(1)
	ctx.Count("writes_in_log", int64(len(L)))
	replay := map[string]any{"config": cfg.key(), "index": idx, "seed": ctx.Seed}
	toks := func(ms []notif.Msg, ch string) []string {
		var out []string
		for _, m := range ms {
			if ch != "" && m.Channel != ch {
				continue
			}
			if isMarkerID(m) {
				continue
			}
			if t := tokOf(m); t != "" {
				out = append(out, t)
			} else if ch == "pub" {
				out = append(out, m.Raw)
			}
		}
		return out
	}
	judge := func(receiver string, v notif.Verdict, why string, got, want []string) bool {
		switch v {
		case notif.Inconclusive:
			ctx.Inconclusive(receiver + ": " + why)
			return false
		case notif.Lost:
			ctx.Violation("lost:"+receiver+":marker", fmt.Sprintf("%s: the end marker never arrived (%s); %d of %d messages received [%s]", receiver, why, len(got), len(want), cfg.key()), replay)
			return false
		}
		ctx.Count("messages_checked:"+receiver, int64(len(got)))
		if d := exactSeq(got, want); d != "" {
			cls := strings.SplitN(d, ":", 2)[0]
			cls = strings.Fields(cls)[0]
			ctx.Violation(cls+":"+receiver, fmt.Sprintf("%s: delivered sequence differs from the order the writes were applied (log order): %s [%s]", receiver, d, cfg.key()), replay)
			return false
		}
		return true
	}
	okAll := true
	okAll = judge("channel", vA, whyA, toks(byChanA["c1"], ""), L) && okAll
	okAll = judge("channel-match", vA, whyA, toks(byChanA["c2"], ""), L0) && okAll
	// PUBLISH: per-publisher FIFO
	perPub := map[string][]string{}
	for _, m := range byChanA["pub"] {
		p := strings.SplitN(m.Raw, "-", 2)[0]
		perPub[p] = append(perPub[p], m.Raw)
	}
	for p := 0; p < cfg.publishers; p++ {
		var want []string
		for _, o := range pubs[p] {
			if o.acked {
				want = append(want, o.tok)
			}
		}
		okAll = judge("publish", vA, whyA, perPub["p"+strconv.Itoa(p)], want) && okAll
	}
	if len(seenMarks) == 3 {
		okAll = judge("pattern-channel", notif.Arrived, "", toks(pmsgs, "c1"), L) && okAll
		okAll = judge("pattern-channel-match", notif.Arrived, "", toks(pmsgs, "c2"), L0) && okAll
	} else if notif.Ping(s.Addr()) {
		// server already stopped: the markers were published before; judge as lost only if the exact subscriber got them
		if vA == notif.Arrived {
			ctx.Violation("lost:pattern-channel:marker", "pattern subscriber did not receive the end markers that the exact subscriber received ["+cfg.key()+"]", replay)
			okAll = false
		}
	} else if vA == notif.Arrived {
		ctx.Violation("lost:pattern-channel:marker", "pattern subscriber did not receive the end markers that the exact subscriber received ["+cfg.key()+"]", replay)
		okAll = false
	}
	if !judge("webhook", vH, whyH, toks(hookMsgs, ""), L) {
		okAll = false
		var att []string
		for i, a := range ep.Attempts() {
			if i < 60 {
				t := ""
				if j := strings.Index(a.Body, `"tok":"`); j >= 0 {
					t = a.Body[j+7 : min(len(a.Body), j+20)]
				}
				att = append(att, fmt.Sprintf("%s action=%d tok=%s", a.At.Format("15:04:05.000"), a.Action, t))
			}
		}
		ctx.Logf("webhook attempts: %s", strings.Join(att, " | "))
	}
	for i := range lives {
		okAll = judge("live", vL[i], "", toks(liveMsgs[i], ""), L) && okAll
	}
	// mid-traffic subscribers
	sortedW := append([]*wop(nil), wops...)
	for _, ms := range mids {
		if ms == nil || ms.sub == nil {
			continue
		}
		kind := "mid-subscriber"
		if ms.pattern {
			kind = "mid-psubscriber"
		}
		// required range in log order: writes called after the ack ... writes returned before leaving
		mustFrom, mustTo := len(L), -1
		for _, o := range sortedW {
			p, inLog := pos[o.tok]
			if !inLog || !o.acked {
				continue
			}
			if o.call.After(ms.ack) && o.ret.Before(ms.leaving) {
				if p < mustFrom {
					mustFrom = p
				}
				if p > mustTo {
					mustTo = p
				}
			}
		}
		got := toks(ms.msgs, "c1")
		ctx.Count("messages_checked:"+kind, int64(len(got)))
		if d := sliceSeq(got, L, mustFrom, mustTo); d != "" {
			cls := strings.Fields(strings.SplitN(d, ":", 2)[0])[0]
			cls = strings.TrimSuffix(cls, ",")
			ctx.Violation(cls+":"+kind, fmt.Sprintf("%s (acknowledged mid-traffic): %s [%s]", kind, d, cfg.key()), replay)
			okAll = false
		}
		// its PUBLISH view: per publisher contiguous and covering
		per := map[string][]string{}
		for _, m := range ms.msgs {
			if m.Channel == "pub" {
				p := strings.SplitN(m.Raw, "-", 2)[0]
				per[p] = append(per[p], m.Raw)
			}
		}
		for p := 0; p < cfg.publishers; p++ {
			var want []string
			from, to := 1<<30, -1
			for i, o := range pubs[p] {
				want = append(want, o.tok)
				if o.acked && o.call.After(ms.ack) && o.ret.Before(ms.leaving) {
					if i < from {
						from = i
					}
					if i > to {
						to = i
					}
				}
			}
			if d := sliceSeq(per["p"+strconv.Itoa(p)], want, from, to); d != "" {
				cls := strings.TrimSuffix(strings.Fields(strings.SplitN(d, ":", 2)[0])[0], ",")
				ctx.Violation(cls+":"+kind+"-publish", fmt.Sprintf("%s PUBLISH stream of publisher %d: %s [%s]", kind, p, d, cfg.key()), replay)
				okAll = false
			}
		}
	}
	if okAll {
		for _, rk := range []string{"channel", "pattern-channel", "publish", "webhook"} {
			ctx.Distinct(rk + "|" + cfg.key())
		}
		if cfg.lives > 0 {
			ctx.Distinct("live|" + cfg.key())
		}
		if cfg.midSubs > 0 {
			ctx.Distinct("mid|" + cfg.key())
		}
	}
	if cfg.race {
		ctx.Count("race_reports_side_observation", int64(len(srv.RaceReports(dir+"/race"))))
	}
	if idx == 0 {
		ctx.Sample(map[string]any{"config": cfg.key(), "writes_in_log": len(L), "first_tokens_in_log_order": L[:min(6, len(L))], "webhook_delivered": len(toks(hookMsgs, "")), "channel_received": len(toks(byChanA["c1"], ""))})
	}
}

// ackRace: a subscription that has been acknowledged must receive a PUBLISH
// issued afterwards. One SUBSCRIBE (or PSUBSCRIBE) names many channels; as soon
// as the FIRST acknowledgement is read, another connection publishes on that
// first channel. The message must arrive before a marker published (after all
// acknowledgements were read) on the last channel.
func ackRace(ctx *core.Ctx, bin string, idx int) {
	r := ctx.SubRng(int64(idx) + 110000)
	s, err := srv.Start(srv.Opts{Bin: bin})
	if err != nil {
		ctx.Inconclusive(err.Error())
		return
	}
	defer s.Kill9()
	ctl, err := respc.Dial(s.Addr(), 5*time.Second)
	if err != nil {
		ctx.Inconclusive(err.Error())
		return
	}
	defer ctl.Close()
	ctl.Timeout = 30 * time.Second
	for round := 0; round < 6; round++ {
		pattern := round%2 == 1
		n := []int{2, 50, 1000, 4000}[r.Intn(4)]
		sub, err := respc.Dial(s.Addr(), 5*time.Second)
		if err != nil {
			ctx.Inconclusive(err.Error())
			return
		}
		sub.Timeout = 30 * time.Second
		cmd := []string{"SUBSCRIBE"}
		if pattern {
			cmd[0] = "PSUBSCRIBE"
		}
		for i := 0; i < n; i++ {
			cmd = append(cmd, fmt.Sprintf("r%d_%d:c%05d", idx, round, i))
		}
		first, last := cmd[1], cmd[len(cmd)-1]
		if err := sub.Send(cmd...); err != nil {
			sub.Close()
			ctx.Inconclusive(err.Error())
			return
		}
		ack, err := sub.Recv()
		if err != nil || ack.Kind != '*' || len(ack.Arr) < 2 || ack.Arr[1].Str != first {
			sub.Close()
			ctx.Inconclusive(fmt.Sprintf("unexpected first subscribe reply: %v %s", err, ack.String()))
			return
		}
		tok := fmt.Sprintf("ackrace-%d-%d", idx, round)
		pr, err := ctl.Do("PUBLISH", first, tok)
		if err != nil {
			sub.Close()
			ctx.Inconclusive(err.Error())
			return
		}
		// read the remaining acknowledgements and everything else up to the marker
		got := false
		acks := 1
		markerSent := false
		ok := true
		for {
			if acks == n && !markerSent {
				if _, err := ctl.Do("PUBLISH", last, "MARK"); err != nil {
					ok = false
					break
				}
				markerSent = true
			}
			m, err := sub.Recv()
			if err != nil {
				ok = false
				break
			}
			if m.Kind == '*' && len(m.Arr) >= 3 {
				kind := m.Arr[0].Str
				switch kind {
				case "subscribe", "psubscribe":
					acks++
				case "message":
					if m.Arr[2].Str == tok {
						got = true
					}
					if m.Arr[2].Str == "MARK" {
						goto done
					}
				case "pmessage":
					if len(m.Arr) >= 4 {
						if m.Arr[3].Str == tok {
							got = true
						}
						if m.Arr[3].Str == "MARK" {
							goto done
						}
					}
				}
			}
		}
	done:
		sub.Close()
		if !ok {
			ctx.Inconclusive("ack race: subscriber connection broke")
			return
		}
		ctx.Eval(1)
		ctx.Count("ack_race_rounds", 1)
		kind := "subscribe"
		if pattern {
			kind = "psubscribe"
		}
		if !got {
			ctx.Violation("lost:acknowledged-"+kind, fmt.Sprintf("%s of %d channels: the subscription to %q was acknowledged, a PUBLISH on it issued afterwards (reply %s) was never delivered although a later marker on %q was", strings.ToUpper(kind), n, first, pr.String(), last), map[string]any{"channels": n, "round": round})
			return
		}
		ctx.Distinct(fmt.Sprintf("ackrace|%s|%d", kind, n))
	}
}

// hookChurn: a webhook is deleted and re-created under the same name with a new
// endpoint while writes continue. Messages caused by writes applied after the
// re-creation belong to the NEW hook: they must arrive at the new endpoint,
// complete and in write order, and never at the old endpoint. A sleep at the
// schedule point in the webhook sender (between its closed test and its queue
// read) makes the old sender's last round overlap the re-creation.
func hookChurn(ctx *core.Ctx, bin string, idx int) {
	r := ctx.SubRng(int64(idx) + 120000)
	env := []string{fmt.Sprintf("T38_VERIF_POINTS=hook.beforeProc=sleep:%d", 5+r.Intn(40))}
	s, err := srv.Start(srv.Opts{Bin: bin, Env: env})
	if err != nil {
		ctx.Inconclusive(err.Error())
		return
	}
	defer s.Kill9()
	ep, err := notif.NewEndpoint()
	if err != nil {
		ctx.Inconclusive(err.Error())
		return
	}
	defer ep.Close()
	c, err := respc.Dial(s.Addr(), 5*time.Second)
	if err != nil {
		ctx.Inconclusive(err.Error())
		return
	}
	defer c.Close()
	c.Timeout = 30 * time.Second
	rounds := 4 + r.Intn(4)
	for round := 0; round < rounds; round++ {
		oldPath := fmt.Sprintf("/churn%d_%d", idx, round)
		newPath := fmt.Sprintf("/churn%d_%d", idx, round+1)
		if round == 0 {
			if rep, err := c.Do(append([]string{"SETHOOK", "hc", ep.URL(oldPath)}, fence("inside")...)...); err != nil || rep.IsErr() {
				ctx.Inconclusive("sethook failed")
				return
			}
		}
		// traffic for the current hook
		for i := 0; i < 3+r.Intn(5); i++ {
			c.Do("SET", "fleet", "o"+strconv.Itoa(i%3), "FIELD", "tok", fmt.Sprintf("r%d-a%d", round, i), "POINT", "1", "1")
		}
		time.Sleep(time.Duration(r.Intn(30)) * time.Millisecond)
		// delete and re-create under the same name with the next endpoint
		if rep, err := c.Do("DELHOOK", "hc"); err != nil || rep.IsErr() {
			ctx.Inconclusive("delhook failed")
			return
		}
		if rep, err := c.Do(append([]string{"SETHOOK", "hc", ep.URL(newPath)}, fence("inside")...)...); err != nil || rep.IsErr() {
			ctx.Inconclusive("sethook failed")
			return
		}
		var want []string
		n := 4 + r.Intn(6)
		for i := 0; i < n; i++ {
			tok := fmt.Sprintf("r%d-b%d", round, i)
			if rep, err := c.Do("SET", "fleet", "o"+strconv.Itoa(i%3), "FIELD", "tok", tok, "POINT", "1", "1"); err != nil || rep.IsErr() {
				ctx.Inconclusive("set failed")
				return
			}
			want = append(want, tok)
		}
		// marker for the new hook
		if rep, err := c.Do("SET", "fleet", "marker:"+strconv.Itoa(round), "FIELD", "tok", "MARK", "POINT", "1", "1"); err != nil || rep.IsErr() {
			ctx.Inconclusive("marker failed")
			return
		}
		msgs, v, why := ep.Stream(newPath).Await(isMarkerID, notif.WaitOpts{Addr: s.Addr(), Watchdog: 30 * time.Second})
		ctx.Eval(1)
		var got []string
		for _, m := range msgs {
			if t := tokOf(m); t != "" && !isMarkerID(m) {
				got = append(got, t)
			}
		}
		replay := map[string]any{"round": round, "want": want, "got_new_endpoint": got}
		switch v {
		case notif.Inconclusive:
			ctx.Inconclusive("hook churn: " + why)
			return
		case notif.Lost:
			for _, m := range ep.Stream(oldPath).Drain() {
				if t := tokOf(m); strings.HasPrefix(t, fmt.Sprintf("r%d-b", round)) || t == "MARK" {
					ctx.Violation("misdelivered:webhook-recreated", fmt.Sprintf("hook deleted and re-created under the same name: notification %s of a write applied after the re-creation was delivered to the OLD hook's endpoint and the new endpoint received nothing", t), replay)
					return
				}
			}
			ctx.Violation("lost:webhook-recreated:marker", fmt.Sprintf("hook re-created under the same name: the marker for the new hook never arrived at the new endpoint (%s); it received %v, expected %v first", why, got, want), replay)
			return
		}
		// messages of the previous phase may legitimately still be in the queue of the name and go to the new hook; judge only the b-tokens
		var gotB []string
		for _, t := range got {
			if strings.HasPrefix(t, fmt.Sprintf("r%d-b", round)) {
				gotB = append(gotB, t)
			}
		}
		if d := exactSeq(gotB, want); d != "" {
			cls := strings.Fields(strings.SplitN(d, ":", 2)[0])[0]
			ctx.Violation(cls+":webhook-recreated", fmt.Sprintf("hook deleted and re-created under the same name: the new endpoint did not receive exactly the notifications of the writes applied after the re-creation, in order: %s", d), replay)
			return
		}
		// the old endpoint must not have received any of them
		for _, m := range ep.Stream(oldPath).Drain() {
			if t := tokOf(m); strings.HasPrefix(t, fmt.Sprintf("r%d-b", round)) {
				ctx.Violation("misdelivered:webhook-recreated", fmt.Sprintf("hook deleted and re-created under the same name: notification %s of a write applied after the re-creation was delivered to the OLD hook's endpoint", t), replay)
				return
			}
		}
		ctx.Distinct(fmt.Sprintf("churn|%d", n))
	}
	ctx.Count("hook_churn_rounds", int64(rounds))
}

// retention: an endpoint outage longer than the 30 s retention. Messages that
// are younger than 30 s when the endpoint recovers must still be delivered, in
// order (older ones may have been dropped).
func retention(ctx *core.Ctx, bin string) {
	s, err := srv.Start(srv.Opts{Bin: bin})
	if err != nil {
		ctx.Inconclusive(err.Error())
		return
	}
	defer s.Kill9()
	ep, err := notif.NewEndpoint()
	if err != nil {
		ctx.Inconclusive(err.Error())
		return
	}
	defer ep.Close()
	c, err := respc.Dial(s.Addr(), 5*time.Second)
	if err != nil {
		ctx.Inconclusive(err.Error())
		return
	}
	defer c.Close()
	c.Timeout = 30 * time.Second
	if rep, err := c.Do(append([]string{"SETHOOK", "ret", ep.URL("/ret")}, fence("inside")...)...); err != nil || rep.IsErr() {
		ctx.Inconclusive("sethook failed")
		return
	}
	ep.SetDefault(notif.Fail5xx)
	t0 := time.Now()
	type sent struct {
		tok string
		at  time.Time
	}
	var all []sent
	for i, wait := range []time.Duration{0, 10 * time.Second, 20 * time.Second, 26 * time.Second} {
		time.Sleep(time.Until(t0.Add(wait)))
		tok := fmt.Sprintf("ret-m%d", i+1)
		if rep, err := c.Do("SET", "fleet", "r"+strconv.Itoa(i), "FIELD", "tok", tok, "POINT", "1", "1"); err != nil || rep.IsErr() {
			ctx.Inconclusive("set failed")
			return
		}
		all = append(all, sent{tok, time.Now()})
	}
	time.Sleep(time.Until(t0.Add(33 * time.Second)))
	ep.SetDefault(notif.Accept)
	recovered := time.Now()
	if rep, err := c.Do("SET", "fleet", "marker:ret", "FIELD", "tok", "MARK", "POINT", "1", "1"); err != nil || rep.IsErr() {
		ctx.Inconclusive("marker failed")
		return
	}
	msgs, v, why := ep.Stream("/ret").Await(isMarkerID, notif.WaitOpts{Addr: s.Addr(), Watchdog: 40 * time.Second})
	ctx.Eval(1)
	var got []string
	for _, m := range msgs {
		if t := tokOf(m); t != "" && !isMarkerID(m) {
			got = append(got, t)
		}
	}
	replay := map[string]any{"got": got}
	switch v {
	case notif.Inconclusive:
		ctx.Inconclusive("retention: " + why)
		return
	case notif.Lost:
		ctx.Violation("lost:webhook:after-long-outage:marker", "after a 33 s outage the recovered endpoint never received the marker: "+why, replay)
		return
	}
	// required: every message younger than 25 s at recovery (5 s of slack for the retry cadence and load)
	var must []string
	for _, m := range all {
		if recovered.Sub(m.at) < 25*time.Second {
			must = append(must, m.tok)
		}
	}
	// got must be a suffix-aligned subsequence of all in order, containing every must
	idx := map[string]int{}
	for i, m := range all {
		idx[m.tok] = i
	}
	last := -1
	for _, g := range got {
		i, ok := idx[g]
		if !ok || i <= last {
			ctx.Violation("duplicate:webhook:after-long-outage", fmt.Sprintf("after a 33 s outage the endpoint received %v: out of order or duplicated", got), replay)
			return
		}
		last = i
	}
	have := map[string]bool{}
	for _, g := range got {
		have[g] = true
	}
	for _, m := range must {
		if !have[m] {
			ctx.Violation("lost:webhook:after-long-outage", fmt.Sprintf("endpoint down for 33 s: message %s was queued less than 25 s before the recovery (retention is 30 s) but was never delivered; delivered: %v", m, got), replay)
			return
		}
	}
	ctx.Count("long_outage_scenarios", 1)
	ctx.Distinct("webhook|long-outage")
}

// Run is the C10 check.
func Run(ctx *core.Ctx) {
	ctx.Rule = "one fenced collection with channels c1 (all objects) and c2 (MATCH w0*), a webhook h1 on a scripted local endpoint and 0-2 live fences, all `DETECT inside` over the whole world so that every SET produces exactly one notification carrying the write's unique token; 1-8 concurrent writers, 0-3 PUBLISH publishers, an exact and a pattern subscriber from the start, 0-3 subscribers that subscribe and leave while traffic flows, webhook failure patterns {none, refuse (listener closed 0.3-1.5 s), 5xx x k, refuse then 5xx, hang > 5 s (thorough)}; one connection holding an exact and two pattern subscriptions of the same channel (one frame per subscription); phases end with markers (PUBLISH on the same channels; a marker object for webhook/live). Oracle: the token sequence delivered to each receiver must equal the order of the causing SETs in appendonly.aof exactly (no loss, no duplicate among 2xx-answered requests, in order); PUBLISH per publisher FIFO; a mid-traffic subscriber's sequence must be a contiguous slice of the log order covering every write called after its acknowledgement and acknowledged before it left. non-trivial = a receiver that got >= 2 messages from >= 2 writers, or any outage; distinct key = (receiver kind, configuration)"
	ctx.Assumptions = []string{"only requests the endpoint answered 2xx count as delivered", "outages are shorter than the 30 s retention", "a mid-traffic subscriber's messages caused by writes acknowledged before it leaves have reached its socket 300 ms later"}
	bin, err := srv.Build("plain")
	if err != nil {
		ctx.Fatal("%v", err)
	}
	outages := []string{"none", "refuse", "5xx", "refuse+5xx", "none", "refuse"}
	var cfgs []scenarioCfg
	n := ctx.Pick(10, 150)
	for i := 0; i < n; i++ {
		r := ctx.Rng
		c := scenarioCfg{writers: 1 + r.Intn(8), publishers: r.Intn(4), perWriter: ctx.Pick(150, 400), outage: outages[i%len(outages)], midSubs: r.Intn(4), lives: r.Intn(3)}
		if ctx.Thorough() && i%25 == 24 {
			c.outage = "hang"
		}
		if i < 2 {
			c.writers, c.publishers, c.midSubs, c.lives = 4+i*4, 2, 2, 1
		}
		cfgs = append(cfgs, c)
	}
	var wg sync.WaitGroup
	sem := make(chan struct{}, 5)
	// the long-outage scenario takes ~36 s of real time: run it alongside everything else
	var rwg sync.WaitGroup
	rwg.Add(1)
	go func() {
		defer rwg.Done()
		retention(ctx, bin)
	}()
	rwg.Add(1)
	go func() {
		defer rwg.Done()
		dualSubscription(ctx, bin)
		enterExitProbe(ctx, bin)
		unsubscribeProbe(ctx, bin)
		foreignUnsubscribeProbe(ctx, bin)
	}()
	defer rwg.Wait()
	for i, c := range cfgs {
		wg.Add(1)
		sem <- struct{}{}
		go func(i int, c scenarioCfg) {
			defer wg.Done()
			defer func() { <-sem }()
			runScenario(ctx, bin, i, c)
		}(i, c)
	}
	wg.Wait()
	for i := 0; i < ctx.Pick(2, 20); i++ {
		ackRace(ctx, bin, i)
	}
	for i := 0; i < ctx.Pick(3, 30); i++ {
		hookChurn(ctx, bin, i)
	}
	if ctx.Thorough() {
		if rbin, err := srv.Build("race"); err == nil {
			for i := 0; i < 6; i++ {
				c := scenarioCfg{writers: 6, publishers: 2, perWriter: 150, outage: outages[i%4], midSubs: 2, lives: 2, race: true}
				runScenario(ctx, rbin, 1000+i, c)
			}
		}
	}
}
