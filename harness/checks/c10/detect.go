package c10

import (
	"encoding/json"
	"fmt"
	"io"
	"net"
	"net/http"
	"strconv"
	"strings"
	"sync"
	"time"

	"verifharness/core"
	"verifharness/respc"
	"verifharness/srv"
)

// enterExitProbe: a fence that detects only enter and exit, on a webhook, a
// channel and a live connection at once; objects alternate between a position
// inside and one far outside. Every flip produces exactly one notification on
// each receiver, in write order (the write that moves an object out is found
// through its OLD position only). The webhook endpoint answers some deliveries
// with statuses that are not an acceptance (429, 404, 302, 204, 500): such a
// message must be offered again until it is accepted with 200, 201 or 202, in
// order, nothing dropped.
func enterExitProbe(ctx *core.Ctx, bin string) {
	type rec struct{ detect, id, tok string }
	parse := func(b string) (rec, bool) {
		var m map[string]any
		if json.Unmarshal([]byte(b), &m) != nil {
			return rec{}, false
		}
		f, _ := m["fields"].(map[string]any)
		tok := ""
		if f != nil {
			switch v := f["tok"].(type) {
			case float64:
				tok = strconv.Itoa(int(v))
			case string:
				tok = v
			}
		}
		d, _ := m["detect"].(string)
		id, _ := m["id"].(string)
		return rec{d, id, tok}, d != ""
	}
	var mu sync.Mutex
	var accepted []rec
	attempts := map[string]int{}
	twoEndpoints := map[string][]string{} // message -> endpoints of the two-endpoint hook that got it
	refusals := 0
	ln, err := net.Listen("tcp", "127.0.0.1:0")
	if err != nil {
		ctx.Inconclusive("enter/exit probe: " + err.Error())
		return
	}
	statuses := []int{429, 404, 302, 204, 500, 503}
	hs := &http.Server{Handler: http.HandlerFunc(func(w http.ResponseWriter, r *http.Request) {
		b, _ := io.ReadAll(r.Body)
		rc, ok := parse(string(b))
		mu.Lock()
		defer mu.Unlock()
		if strings.HasPrefix(r.URL.Path, "/two-") {
			// the second hook's two endpoints: both always accept
			if ok {
				twoEndpoints[rc.detect+":"+rc.id+"#"+rc.tok] = append(twoEndpoints[rc.detect+":"+rc.id+"#"+rc.tok], r.URL.Path)
			}
			w.WriteHeader(200)
			return
		}
		if ok {
			attempts[rc.tok]++
			n, _ := strconv.Atoi(rc.tok)
			if n%5 == 3 && attempts[rc.tok] <= 2 {
				// not an acceptance: the message has to come again
				refusals++
				w.WriteHeader(statuses[(n/5)%len(statuses)])
				return
			}
			accepted = append(accepted, rc)
		}
		w.WriteHeader([]int{200, 201, 202}[len(accepted)%3])
	})}
	go hs.Serve(ln)
	defer hs.Close()

	s, err := srv.Start(srv.Opts{Bin: bin})
	if err != nil {
		ctx.Inconclusive("enter/exit probe: " + err.Error())
		return
	}
	defer s.Kill9()
	c, err := respc.Dial(s.Addr(), 5*time.Second)
	if err != nil {
		ctx.Inconclusive("enter/exit probe: " + err.Error())
		return
	}
	defer c.Close()
	c.Timeout = 20 * time.Second
	fenceArgs := []string{"WITHIN", "eek", "FENCE", "DETECT", "enter,exit", "BOUNDS", "0", "0", "10", "10"}
	if r, err := c.Do(append([]string{"SETHOOK", "eehook", "http://" + ln.Addr().String() + "/ee"}, fenceArgs...)...); err != nil || r.IsErr() {
		ctx.Inconclusive("enter/exit probe: SETHOOK failed")
		return
	}
	// a hook with two healthy endpoints: the second is a fail-over, each message goes to one of them
	if r, err := c.Do(append([]string{"SETHOOK", "eehook2", "http://" + ln.Addr().String() + "/two-a,http://" + ln.Addr().String() + "/two-b"}, fenceArgs...)...); err != nil || r.IsErr() {
		ctx.Inconclusive("enter/exit probe: SETHOOK with two endpoints failed")
		return
	}
	if r, err := c.Do(append([]string{"SETCHAN", "eechan"}, fenceArgs...)...); err != nil || r.IsErr() {
		ctx.Inconclusive("enter/exit probe: SETCHAN failed")
		return
	}
	sub, err1 := respc.Dial(s.Addr(), 5*time.Second)
	live, err2 := respc.Dial(s.Addr(), 5*time.Second)
	if err1 != nil || err2 != nil {
		ctx.Inconclusive("enter/exit probe: dial")
		return
	}
	defer sub.Close()
	defer live.Close()
	sub.Send("SUBSCRIBE", "eechan")
	sub.RecvTimeout(5 * time.Second)
	live.Send(fenceArgs...)
	live.RecvTimeout(5 * time.Second)

	var want []rec
	inside := map[string]bool{}
	const n = 60
	for i := 1; i <= n; i++ {
		id := "o" + strconv.Itoa(i%3)
		goIn := !inside[id]
		if i%7 == 0 {
			goIn = inside[id] // now and then no flip: no notification is due
		}
		pos := []string{"50", "50"}
		if goIn {
			pos = []string{"5", strconv.Itoa(1 + i%8)}
		}
		if r, err := c.Do("SET", "eek", id, "FIELD", "tok", strconv.Itoa(i), "POINT", pos[0], pos[1]); err != nil || r.IsErr() {
			ctx.Inconclusive("enter/exit probe: SET failed")
			return
		}
		if goIn != inside[id] {
			want = append(want, rec{map[bool]string{true: "enter", false: "exit"}[goIn], id, strconv.Itoa(i)})
		}
		inside[id] = goIn
	}
	collect := func(cn *respc.Conn, pubsub bool) []rec {
		var out []rec
		for len(out) < len(want)+5 {
			rp, err := cn.RecvTimeout(1500 * time.Millisecond)
			if err != nil {
				break
			}
			txt := rp.Str
			if pubsub {
				if rp.Kind != '*' || len(rp.Arr) != 3 {
					continue
				}
				txt = rp.Arr[2].Str
			}
			if rc, ok := parse(txt); ok {
				out = append(out, rc)
			}
		}
		return out
	}
	gotChan := collect(sub, true)
	gotLive := collect(live, false)
	// the webhook needs its retries (half a second each)
	for dl := time.Now().Add(25 * time.Second); time.Now().Before(dl); time.Sleep(100 * time.Millisecond) {
		mu.Lock()
		done := len(accepted) >= len(want)
		mu.Unlock()
		if done {
			break
		}
	}
	time.Sleep(700 * time.Millisecond)
	mu.Lock()
	gotHook := append([]rec(nil), accepted...)
	nref := refusals
	mu.Unlock()
	ctx.Eval(3)
	ctx.Count("enter_exit_notifications_due", int64(len(want)))
	ctx.Count("webhook_non_acceptance_answers", int64(nref))
	ctx.Distinct("enter-exit|hook+chan+live")
	show := func(r []rec) string {
		var sb strings.Builder
		for _, x := range r {
			sb.WriteString(x.detect + ":" + x.id + "#" + x.tok + " ")
		}
		return sb.String()
	}
	mu.Lock()
	for _, wnt := range want {
		k := wnt.detect + ":" + wnt.id + "#" + wnt.tok
		if n := len(twoEndpoints[k]); n != 1 {
			got := fmt.Sprint(twoEndpoints[k])
			mu.Unlock()
			key := "lost:two-endpoint-hook"
			if n > 1 {
				key = "duplicate:two-endpoint-hook"
			}
			ctx.Violation(key, fmt.Sprintf("hook with the endpoints /two-a,/two-b (both accept everything) on fence %q: notification %s was accepted %d times (by %s); each message is due exactly once", fenceArgs, k, n, got), map[string]any{"message": k, "accepted_by": got})
			return
		}
	}
	mu.Unlock()
	for _, g := range []struct {
		name string
		got  []rec
	}{{"chan", gotChan}, {"live", gotLive}, {"hook", gotHook}} {
		if show(g.got) != show(want) {
			key := "lost"
			if len(g.got) > len(want) {
				key = "extra"
			}
			ctx.Violation(key+":enter-exit:"+g.name, fmt.Sprintf("fence %q, %d SETs alternating between inside and far outside (webhook endpoint answered %d deliveries with 429/404/302/204/500/503 before accepting them): the %s received\n  %s\nexpected (one per flip, in write order)\n  %s", fenceArgs, n, nref, g.name, show(g.got), show(want)),
				map[string]any{"receiver": g.name, "got": show(g.got), "want": show(want)})
			return
		}
	}
}
