package c14

import (
	"encoding/json"
	"fmt"
	"math/rand"
	"strconv"
	"strings"
	"sync"
	"time"

	"verifharness/respc"
)

// ---------------------------------------------------------------- fence subscriber

type fenceSub struct {
	c    *respc.Conn
	name string
	mu   sync.Mutex
	dels map[string]int
	msgs int
	done chan struct{}
}

func subscribe(addr, name string) (*fenceSub, error) {
	c, err := respc.Dial(addr, 5*time.Second)
	if err != nil {
		return nil, err
	}
	c.Timeout = 10 * time.Second
	r, err := c.Do("SUBSCRIBE", name)
	if err != nil {
		c.Close()
		return nil, err
	}
	if r.Kind != '*' || len(r.Arr) < 1 || r.Arr[0].Str != "subscribe" {
		c.Close()
		return nil, fmt.Errorf("SUBSCRIBE %s: %s", name, r.String())
	}
	f := &fenceSub{c: c, name: name, dels: map[string]int{}, done: make(chan struct{})}
	go func() {
		defer close(f.done)
		for {
			r, err := c.RecvTimeout(10 * time.Minute)
			if err != nil {
				return
			}
			if r.Kind != '*' || len(r.Arr) != 3 || r.Arr[0].Str != "message" {
				continue
			}
			var m struct {
				Command string `json:"command"`
				ID      string `json:"id"`
			}
			if json.Unmarshal([]byte(r.Arr[2].Str), &m) != nil {
				continue
			}
			f.mu.Lock()
			f.msgs++
			if m.Command == "del" {
				f.dels[m.ID]++
			}
			f.mu.Unlock()
		}
	}()
	return f, nil
}

func (f *fenceSub) delCount(id string) int {
	f.mu.Lock()
	defer f.mu.Unlock()
	return f.dels[id]
}

func (f *fenceSub) close() {
	f.c.Close()
	select {
	case <-f.done:
	case <-time.After(2 * time.Second):
	}
}

// ---------------------------------------------------------------- sequence

type step struct {
	oi int    // object index (-1: sequence level)
	op string // SE S E P D F J R
	T  time.Duration
}

type seqRun struct {
	*scn
	rng    *rand.Rand
	addr   string
	c      *cli
	key    string
	key2   string
	steps  []step
	fence  *fenceSub
	hooks  bool // scenario over channels/hooks
	sample int  // battery: number of objects read individually (0 = all)
}

const fenceBox = "10 10 11 11"

func fmtT(T time.Duration) string {
	return strconv.FormatFloat(T.Seconds(), 'f', 3, 64)
}

func randT(rng *rand.Rand) time.Duration {
	return time.Duration(300+rng.Intn(2701)) * time.Millisecond
}

func (q *seqRun) newObj(key, id string, i int) *obj {
	o := &obj{kind: "obj", key: key, id: id, str: q.flavor == "str", lat: 10.05 + 0.013*float64(i%60), lon: 10.05 + 0.011*float64(i/60), goneHow: "never"}
	q.objs = append(q.objs, o)
	return o
}

func (q *seqRun) setArgs(o *obj, T time.Duration) []string {
	switch o.kind {
	case "chan", "hook":
		o.variant++
		var a []string
		if o.kind == "chan" {
			a = []string{"SETCHAN", o.id}
		} else {
			a = []string{"SETHOOK", o.id, "http://127.0.0.1:9/c14"}
		}
		if T > 0 {
			a = append(a, "EX", fmtT(T))
		}
		return append(a, "WITHIN", "hk"+q.name, "FENCE", "BOUNDS", "0", "0", "1", strconv.Itoa(1+o.variant))
	}
	a := []string{"SET", o.key, o.id}
	if T > 0 {
		a = append(a, "EX", fmtT(T))
	}
	if o.str {
		return append(a, "STRING", "v"+strconv.Itoa(o.setOrd))
	}
	return append(a, "POINT", strconv.FormatFloat(o.lat, 'f', 4, 64), strconv.FormatFloat(o.lon, 'f', 4, 64))
}

func (q *seqRun) harness(format string, a ...any) {
	q.aborted = true
	q.e.inconclusive("C14 harness: " + fmt.Sprintf(format, a...))
}

// opSet: SET (T == 0: without EX) / SETCHAN / SETHOOK.
func (q *seqRun) opSet(o *obj, T time.Duration) {
	ordKey := o.kind + "\x00" + o.key + "\x00" + o.id
	q.ords[ordKey]++
	prevOrd, prevKey := o.setOrd, o.setKey
	o.setOrd, o.setKey = q.ords[ordKey], o.key
	args := q.setArgs(o, T)
	r, send, ack, err := q.do(q.c, args...)
	if err != nil {
		return
	}
	ok := (o.kind == "obj" && r.Kind == '+' && r.Str == "OK") || (o.kind != "obj" && r.Kind == ':' && r.Int == 1)
	if !ok {
		o.setOrd, o.setKey = prevOrd, prevKey
		q.harness("unexpected reply to %v: %s", args, r.String())
		return
	}
	cancel := "set"
	if T > 0 {
		cancel = "set-ex"
	}
	if o.st == stExists && o.d != nil {
		o.stales = append(o.stales, &staleRec{d: *o.d, cancel: cancel})
	}
	if o.st != stTainted {
		o.st = stExists
	}
	o.d = nil
	if T > 0 {
		o.d = &dl{send: send, ack: ack, T: T, op: "set-ex"}
		o.shape = append(o.shape, "SE")
	} else {
		o.shape = append(o.shape, "S")
	}
}

func (q *seqRun) opExpire(o *obj, T time.Duration) {
	r, send, ack, err := q.do(q.c, "EXPIRE", o.key, o.id, fmtT(T))
	if err != nil {
		return
	}
	o.shape = append(o.shape, "E")
	if r.Kind != ':' {
		if r.Kind == '-' && strings.Contains(r.Str, "not found") {
			q.observe(o, false, send, ack, "expire", false)
			return
		}
		q.harness("unexpected EXPIRE reply %s", r.String())
		return
	}
	if r.Int == 0 {
		q.observe(o, false, send, ack, "expire", false)
		return
	}
	q.observe(o, true, send, ack, "expire", false)
	if o.st != stExists {
		return
	}
	if o.d != nil {
		o.stales = append(o.stales, &staleRec{d: *o.d, cancel: "expire"})
	}
	o.d = &dl{send: send, ack: ack, T: T, op: "expire"}
}

func (q *seqRun) opPersist(o *obj) {
	r, send, ack, err := q.do(q.c, "PERSIST", o.key, o.id)
	if err != nil {
		return
	}
	o.shape = append(o.shape, "P")
	if r.Kind != ':' {
		q.harness("unexpected PERSIST reply %s", r.String())
		return
	}
	if r.Int == 1 {
		q.observe(o, true, send, ack, "persist", false)
		if o.st != stExists {
			return
		}
		if o.d == nil {
			c := "none"
			if len(o.stales) > 0 {
				c = o.stales[len(o.stales)-1].cancel
			}
			q.violation("persist:deadline-not-removed:"+c, fmt.Sprintf("PERSIST %s replied 1 (cleared a deadline) although the object has none (last cancelled by %s)", o.name(), c), o, nil)
			return
		}
		o.stales = append(o.stales, &staleRec{d: *o.d, cancel: "persist"})
		o.d = nil
		return
	}
	// 0: absent, or present without deadline
	if o.st == stExists && o.d != nil && ack.Before(o.d.earlyEnd()) {
		q.e.ctx.Eval(1)
		q.violation("persist:reply0:"+o.d.label(), fmt.Sprintf("PERSIST %s replied 0 although the object has a deadline (by %s) that cannot have passed", o.name(), o.d.label()), o, nil)
	}
}

func (q *seqRun) opDel(o *obj) {
	var r respc.Reply
	var send, ack time.Time
	var err error
	switch o.kind {
	case "chan":
		r, send, ack, err = q.do(q.c, "DELCHAN", o.id)
	case "hook":
		r, send, ack, err = q.do(q.c, "DELHOOK", o.id)
	default:
		r, send, ack, err = q.do(q.c, "DEL", o.key, o.id)
	}
	if err != nil {
		return
	}
	o.shape = append(o.shape, "D")
	if r.Kind != ':' {
		q.harness("unexpected DEL reply %s", r.String())
		return
	}
	q.observe(o, r.Int == 1, send, ack, "del", false)
	if o.st == stTainted {
		return
	}
	if o.st == stExists {
		if r.Int == 1 {
			o.dels++
		}
		if o.d != nil {
			o.stales = append(o.stales, &staleRec{d: *o.d, cancel: "del-recreate"})
		}
		o.d = nil
		o.st = stGone
		o.goneHow = "del"
	}
}

func (q *seqRun) opFset(o *obj) {
	o.fsetN++
	r, send, ack, err := q.do(q.c, "FSET", o.key, o.id, "f", strconv.Itoa(o.fsetN))
	if err != nil {
		return
	}
	o.shape = append(o.shape, "F")
	switch {
	case r.Kind == ':':
		q.observe(o, true, send, ack, "fset", false)
		if o.st == stExists && o.d != nil {
			o.d.kept = "fset"
		}
	case r.Kind == '-' && strings.Contains(r.Str, "not found"):
		q.observe(o, false, send, ack, "fset", false)
	default:
		q.harness("unexpected FSET reply %s", r.String())
	}
}

func (q *seqRun) opJset(o *obj) {
	if o.st != stExists || o.str || (o.d != nil && time.Now().After(o.d.send.Add(o.d.T-500*time.Millisecond))) {
		return // JSET creates a missing object: only issued while the object certainly exists
	}
	r, _, ack, err := q.do(q.c, "JSET", o.key, o.id, "properties.n", strconv.Itoa(len(o.shape)))
	if err != nil {
		return
	}
	o.shape = append(o.shape, "J")
	if r.Kind != '+' {
		q.harness("unexpected JSET reply %s", r.String())
		return
	}
	if o.d != nil {
		if !ack.Before(o.d.earlyEnd()) {
			o.st = stTainted // may have been applied to an already expired id
			return
		}
		o.stales = append(o.stales, &staleRec{d: *o.d, cancel: "jset"})
		o.d = nil
	}
}

// opRename renames the collection; some ids are then recreated under the old name
// without a deadline (they must not be removed by the timers that moved away).
func (q *seqRun) opRename() {
	r, send, ack, err := q.do(q.c, "RENAME", q.key, q.key2)
	if err != nil {
		return
	}
	if r.Kind == '-' && strings.Contains(r.Str, "key not found") {
		for _, o := range q.objs {
			if o.key == q.key && o.id == "anchor" {
				q.observe(o, false, send, ack, "rename", false)
			}
		}
		return
	}
	if r.Kind != '+' {
		q.harness("unexpected RENAME reply %s", r.String())
		return
	}
	var moved []*obj
	for _, o := range q.objs {
		if o.key == q.key {
			o.key = q.key2
			o.shape = append(o.shape, "R")
			if o.d != nil {
				o.d.kept = "rename"
			}
			moved = append(moved, o)
		}
	}
	for i, m := range moved {
		if m.id == "anchor" || q.rng.Intn(2) == 0 {
			continue
		}
		n := q.newObj(q.key, m.id, i)
		n.lat, n.lon = m.lat, m.lon
		n.shape = []string{"R"}
		for _, s := range m.stales {
			n.stales = append(n.stales, &staleRec{d: s.d, cancel: "rename-recreate"})
		}
		if m.st == stExists && m.d != nil {
			n.stales = append(n.stales, &staleRec{d: *m.d, cancel: "rename-recreate"})
		}
		q.opSet(n, 0)
		if q.aborted {
			return
		}
	}
	q.key, q.key2 = q.key2, q.key
}

// ---------------------------------------------------------------- reads

func absentReply(r respc.Reply) (absent, ok bool) {
	switch {
	case r.Kind == '$':
		return r.Nil, true
	case r.Kind == '-' && strings.Contains(r.Str, "not found"):
		return true, true
	}
	return false, false
}

type obsRec struct {
	o       *obj
	present bool
	rs, rd  time.Time
	cmd     string
	ttl     bool
	n       int64
}

// readOne: GET (+ TTL) of one object, or CHANS/HOOKS name.
func (q *seqRun) readOne(o *obj, withTTL bool, pingOK bool) {
	if o.st == stTainted {
		return
	}
	if o.kind != "obj" {
		cmd := "CHANS"
		if o.kind == "hook" {
			cmd = "HOOKS"
		}
		r, rs, rd, err := q.do(q.c, cmd, o.id)
		if err != nil {
			return
		}
		if r.Kind != '*' {
			q.harness("unexpected %s reply %s", cmd, r.String())
			return
		}
		q.observe(o, len(r.Arr) > 0, rs, rd, strings.ToLower(cmd), pingOK)
		return
	}
	r, rs, rd, err := q.do(q.c, "GET", o.key, o.id)
	if err != nil {
		return
	}
	abs, ok := absentReply(r)
	if !ok {
		q.harness("unexpected GET reply %s", r.String())
		return
	}
	q.observe(o, !abs, rs, rd, "get", pingOK)
	if withTTL && !q.aborted {
		r, rs, rd, err := q.do(q.c, "TTL", o.key, o.id)
		if err != nil {
			return
		}
		if r.Kind != ':' {
			q.harness("unexpected TTL reply %s", r.String())
			return
		}
		q.observeTTL(o, r.Int, rs, rd, pingOK)
	}
}

func idSet(r respc.Reply) (map[string]bool, bool) {
	if r.Kind == '-' && strings.Contains(r.Str, "not found") {
		return map[string]bool{}, true
	}
	if r.Kind != '*' || len(r.Arr) != 2 || r.Arr[1].Kind != '*' {
		return nil, false
	}
	m := map[string]bool{}
	for _, e := range r.Arr[1].Arr {
		m[e.Str] = true
	}
	return m, true
}

// battery reads every object of `key` through every read command, between two
// PING probes, and judges afterwards.
func (q *seqRun) battery(key string) {
	if q.aborted {
		return
	}
	var objs []*obj
	for _, o := range q.objs {
		if o.key == key && o.st != stTainted {
			objs = append(objs, o)
		}
	}
	if len(objs) == 0 {
		return
	}
	ok1, err := q.ping(q.c)
	if err != nil {
		return
	}
	var obs []obsRec
	type cnt struct {
		n      int64
		rs, rd time.Time
		cmd    string
	}
	var cnts []cnt
	if q.hooks {
		for _, cmd := range []string{"CHANS", "HOOKS"} {
			r, rs, rd, err := q.do(q.c, cmd, q.name+"*")
			if err != nil {
				return
			}
			if r.Kind != '*' {
				q.harness("unexpected %s reply %s", cmd, r.String())
				return
			}
			names := map[string]bool{}
			for _, h := range r.Arr {
				if len(h.Arr) > 0 {
					names[h.Arr[0].Str] = true
				}
			}
			for _, o := range objs {
				if (o.kind == "chan") == (cmd == "CHANS") {
					obs = append(obs, obsRec{o: o, present: names[o.id], rs: rs, rd: rd, cmd: strings.ToLower(cmd) + "-pattern"})
				}
			}
		}
	} else {
		single := objs
		if q.sample > 0 && len(objs) > q.sample {
			single = nil
			for _, i := range q.rng.Perm(len(objs))[:q.sample] {
				single = append(single, objs[i])
			}
		}
		for _, o := range single {
			r, rs, rd, err := q.do(q.c, "GET", o.key, o.id)
			if err != nil {
				return
			}
			abs, ok := absentReply(r)
			if !ok {
				q.harness("unexpected GET reply %s", r.String())
				return
			}
			obs = append(obs, obsRec{o: o, present: !abs, rs: rs, rd: rd, cmd: "get"})
			r, rs, rd, err = q.do(q.c, "EXISTS", o.key, o.id)
			if err != nil {
				return
			}
			switch {
			case r.Kind == ':':
				obs = append(obs, obsRec{o: o, present: r.Int == 1, rs: rs, rd: rd, cmd: "exists"})
			case r.Kind == '-' && strings.Contains(r.Str, "not found"):
				obs = append(obs, obsRec{o: o, present: false, rs: rs, rd: rd, cmd: "exists"})
			default:
				q.harness("unexpected EXISTS reply %s", r.String())
				return
			}
			r, rs, rd, err = q.do(q.c, "TTL", o.key, o.id)
			if err != nil {
				return
			}
			if r.Kind != ':' {
				q.harness("unexpected TTL reply %s", r.String())
				return
			}
			obs = append(obs, obsRec{o: o, rs: rs, rd: rd, cmd: "ttl", ttl: true, n: r.Int})
		}
		var sets [][]string
		sets = append(sets, []string{"SCAN", key, "LIMIT", "100000", "IDS"})
		if q.flavor == "str" {
			sets = append(sets, []string{"SEARCH", key, "LIMIT", "100000", "IDS"})
		} else {
			b := strings.Fields(fenceBox)
			sets = append(sets, append([]string{"WITHIN", key, "LIMIT", "100000", "IDS", "BOUNDS"}, b...))
			sets = append(sets, []string{"NEARBY", key, "LIMIT", "100000", "IDS", "POINT", "10.5", "10.5", "200000"})
		}
		for _, a := range sets {
			r, rs, rd, err := q.do(q.c, a...)
			if err != nil {
				return
			}
			ids, ok := idSet(r)
			if !ok {
				q.harness("unexpected %s reply %s", a[0], clip(r.String(), 200))
				return
			}
			for _, o := range objs {
				obs = append(obs, obsRec{o: o, present: ids[o.id], rs: rs, rd: rd, cmd: strings.ToLower(a[0])})
			}
		}
		counts := [][]string{{"SCAN", key, "COUNT"}}
		if q.flavor == "str" {
			counts = append(counts, []string{"SEARCH", key, "COUNT"})
		} else {
			counts = append(counts, append([]string{"WITHIN", key, "COUNT", "BOUNDS"}, strings.Fields(fenceBox)...))
		}
		for _, a := range counts {
			r, rs, rd, err := q.do(q.c, a...)
			if err != nil {
				return
			}
			switch {
			case r.Kind == ':':
				cnts = append(cnts, cnt{r.Int, rs, rd, strings.ToLower(a[0]) + "-count"})
			case r.Kind == '-' && strings.Contains(r.Str, "not found"):
				cnts = append(cnts, cnt{0, rs, rd, strings.ToLower(a[0]) + "-count"})
			default:
				q.harness("unexpected %v reply %s", a, r.String())
				return
			}
		}
	}
	ok2, err := q.ping(q.c)
	if err != nil {
		return
	}
	pingOK := ok1 && ok2
	// counts are judged against the knowledge before this battery's own observations
	for _, c := range cnts {
		lower, upper := 0, 0
		var mustNot, must []string
		for _, o := range q.objs {
			if o.key != key {
				continue
			}
			switch {
			case o.st == stTainted:
				upper++
			case o.st == stExists && (o.d == nil || c.rd.Before(o.d.earlyEnd())):
				lower++
				upper++
				must = append(must, o.id)
			case o.st == stExists && c.rs.After(o.d.lateStart()) && pingOK:
				mustNot = append(mustNot, o.id)
			case o.st == stExists:
				upper++
			}
		}
		q.e.ctx.Eval(1)
		if int(c.n) < lower {
			q.violation("early:"+c.cmd, fmt.Sprintf("%s %s = %d but %d objects must still be visible (no deadline, or reply before t_send+T)", c.cmd, key, c.n, lower), nil, map[string]any{"must_be_counted": clipList(must)})
		} else if int(c.n) > upper {
			q.violation("late:"+c.cmd, fmt.Sprintf("%s %s = %d but at most %d objects can be visible (the others are deleted or more than 5 s past t_ack+T, PING within 100 ms)", c.cmd, key, c.n, upper), nil, map[string]any{"must_not_be_counted": clipList(mustNot)})
		}
	}
	for _, ob := range obs {
		if ob.ttl {
			q.observeTTL(ob.o, ob.n, ob.rs, ob.rd, pingOK)
		} else {
			q.observe(ob.o, ob.present, ob.rs, ob.rd, ob.cmd, pingOK)
		}
	}
}

func clipList(l []string) []string {
	if len(l) > 20 {
		return append(l[:20:20], "...")
	}
	return l
}

// ---------------------------------------------------------------- timeline

func (q *seqRun) allKeys() []string {
	seen := map[string]bool{}
	var ks []string
	for _, o := range q.objs {
		if !seen[o.key] {
			seen[o.key] = true
			ks = append(ks, o.key)
		}
	}
	return ks
}

func (q *seqRun) sleepUntil(t time.Time) {
	if d := time.Until(t); d > 0 {
		time.Sleep(d)
	}
}

// pendingStale returns the earliest cancelled-deadline checkpoint that is still
// worth a read (the successor is certainly alive at that time).
func (q *seqRun) pendingStale() (*obj, *staleRec) {
	var bo *obj
	var bs *staleRec
	for _, o := range q.objs {
		if o.st != stExists {
			continue
		}
		for _, s := range o.stales {
			if s.counted || s.tried >= 3 {
				continue
			}
			if o.d != nil && !s.checkAt().Add(150*time.Millisecond).Before(o.d.earlyEnd()) {
				continue
			}
			if bs == nil || s.checkAt().Before(bs.checkAt()) {
				bo, bs = o, s
			}
		}
	}
	return bo, bs
}

// tick performs the reads that are due now; it returns false when nothing is pending.
func (q *seqRun) tick() bool {
	now := time.Now()
	pending := false
	if o, s := q.pendingStale(); s != nil {
		pending = true
		if now.After(s.checkAt().Add(10 * time.Millisecond)) {
			s.tried++
			q.readOne(o, true, false)
		}
	}
	late := map[string]bool{}
	for _, o := range q.objs {
		if q.aborted {
			return false
		}
		if o.st != stExists || o.d == nil {
			continue
		}
		pending = true
		d := o.d
		end := d.send.Add(d.T)
		switch {
		case now.After(end.Add(-300*time.Millisecond)) && now.Before(end.Add(-guardBand)):
			// dense probes just before the deadline (a sweeper that fires early is only visible here)
			q.readOne(o, !d.earlyProbed, false)
			d.earlyProbed = true
		case now.After(d.lateStart().Add(5 * time.Millisecond)):
			late[o.key] = true
		case now.After(end) && now.Sub(d.lastPoll) > 100*time.Millisecond:
			d.lastPoll = now
			q.readOne(o, false, false)
		}
	}
	for k := range late {
		q.battery(k)
	}
	return pending
}

func (q *seqRun) execStep(st step) {
	if st.op == "R" {
		q.opRename()
		return
	}
	o := q.objs[st.oi]
	if o.st == stTainted {
		return
	}
	switch st.op {
	case "SE":
		q.opSet(o, st.T)
	case "S":
		q.opSet(o, 0)
	case "E":
		q.opExpire(o, st.T)
	case "P":
		q.opPersist(o)
	case "D":
		q.opDel(o)
	case "F":
		q.opFset(o)
	case "J":
		q.opJset(o)
	}
}

// genSteps builds the PRNG-determined op sequence.
func (q *seqRun) genSteps(nobj int) {
	var scripts [][]step
	for i := 0; i < nobj; i++ {
		var sc []step
		first := "SE"
		if !q.hooks && q.rng.Intn(10) < 2 {
			first = "S"
		}
		sc = append(sc, step{oi: i, op: first, T: randT(q.rng)})
		n := 1 + q.rng.Intn(4)
		if q.hooks {
			n = q.rng.Intn(3)
		}
		last := first
		for j := 0; j < n; j++ {
			var op string
			if last == "D" {
				op = []string{"S", "SE", "SE"}[q.rng.Intn(3)]
			} else if q.hooks {
				op = []string{"SE", "SE", "S", "D"}[q.rng.Intn(4)]
			} else {
				op = []string{"SE", "SE", "S", "E", "E", "P", "P", "D", "F", "F", "J"}[q.rng.Intn(11)]
			}
			T := randT(q.rng)
			if (op == "SE" || op == "E") && q.rng.Intn(3) == 0 {
				T += 1500 * time.Millisecond // a successor that outlives its predecessor's deadline by > 1 s
				if T > 3000*time.Millisecond {
					T = 3000 * time.Millisecond
				}
			}
			sc = append(sc, step{oi: i, op: op, T: T})
			last = op
		}
		scripts = append(scripts, sc)
	}
	// random interleaving preserving per-object order
	for {
		var live []int
		for i, sc := range scripts {
			if len(sc) > 0 {
				live = append(live, i)
			}
		}
		if len(live) == 0 {
			break
		}
		i := live[q.rng.Intn(len(live))]
		q.steps = append(q.steps, scripts[i][0])
		scripts[i] = scripts[i][1:]
	}
	if q.flavor == "rename" {
		at := 1 + q.rng.Intn(len(q.steps))
		q.steps = append(q.steps[:at], append([]step{{oi: -1, op: "R"}}, q.steps[at:]...)...)
	}
}

// run executes the sequence. The server must already be up.
func (q *seqRun) run() {
	var err error
	q.c, err = dial(q.addr)
	if err != nil {
		q.harness("dial: %v", err)
		return
	}
	defer q.c.close()
	ctx := q.e.ctx
	nobj := 3 + q.rng.Intn(3)
	if q.hooks {
		for i := 0; i < nobj; i++ {
			kind := "chan"
			if q.rng.Intn(2) == 0 {
				kind = "hook"
			}
			q.objs = append(q.objs, &obj{kind: kind, id: fmt.Sprintf("%s%c", q.name, 'a'+i), goneHow: "never"})
		}
	} else {
		for i := 0; i < nobj; i++ {
			q.newObj(q.key, fmt.Sprintf("o%d", i), i)
		}
		a := q.newObj(q.key, "anchor", nobj)
		q.opSet(a, 0)
		a.shape = nil
		if q.flavor == "fence" {
			r, _, _, err := q.do(q.c, "SETCHAN", "f"+q.name, "WITHIN", q.key, "FENCE", "BOUNDS", "10", "10", "11", "11")
			if err != nil || r.Kind != ':' {
				q.harness("SETCHAN: %v %s", err, r.String())
				return
			}
			q.fence, err = subscribe(q.addr, "f"+q.name)
			if err != nil {
				q.harness("subscribe: %v", err)
				return
			}
			defer q.fence.close()
		}
	}
	q.genSteps(nobj)
	var allD []dl
	for _, st := range q.steps {
		if q.aborted || q.e.stop() {
			break
		}
		// PRNG phase relative to the 100 ms sweeper
		time.Sleep(time.Duration(q.rng.Intn(151)) * time.Millisecond)
		if q.rng.Intn(4) == 0 {
			if _, s := q.pendingStale(); s != nil && time.Until(s.checkAt()) < 2500*time.Millisecond {
				q.sleepUntil(s.checkAt().Add(15 * time.Millisecond))
			}
		}
		q.tick()
		q.execStep(st)
		if q.aborted {
			break
		}
		if st.oi >= 0 {
			o := q.objs[st.oi]
			if o.d != nil {
				allD = append(allD, *o.d)
			}
			switch x := q.rng.Intn(20); {
			case x < 12:
				q.readOne(o, !q.hooks, false)
			case x < 15:
				q.battery(o.key)
			}
		}
	}
	// drain: early probes, straddle polls, cancelled-deadline checkpoints, late batteries
	watch := time.Now().Add(60 * time.Second)
	for !q.aborted && !q.e.stop() {
		if !q.tick() {
			break
		}
		if time.Now().After(watch) {
			q.harness("drain watchdog")
			break
		}
		time.Sleep(20 * time.Millisecond)
	}
	// final: every deadline ever set (fired or cancelled) is more than 5 s past
	var last time.Time
	for _, d := range allD {
		if d.lateStart().After(last) {
			last = d.lateStart()
		}
	}
	for _, o := range q.objs {
		for _, s := range o.stales {
			if s.d.lateStart().After(last) {
				last = s.d.lateStart()
			}
		}
	}
	if !q.aborted && !q.e.stop() {
		q.sleepUntil(last.Add(20 * time.Millisecond))
		for try := 0; try < 6 && !q.aborted; try++ {
			q.retry = false
			if q.hooks {
				q.battery("")
			} else {
				for _, k := range q.allKeys() {
					q.battery(k)
				}
			}
			if !q.retry {
				break
			}
			time.Sleep(400 * time.Millisecond)
		}
		if q.retry && !q.aborted {
			q.e.inconclusive("an object was still visible after the bound but PING never answered within 100 ms (machine too busy to judge)")
		}
	}
	if q.fence != nil && !q.aborted {
		q.checkFence()
	}
	if q.aborted {
		ctx.Count("scenarios_aborted", 1)
		return
	}
	ctx.Count("sequences", 1)
	if nt, key := q.nonTrivial(); nt {
		ctx.Distinct(key)
		ctx.Count("sequences_nontrivial", 1)
		q.e.mu.Lock()
		take := q.e.sampled < 6
		if take {
			q.e.sampled++
		}
		q.e.mu.Unlock()
		if take {
			var objs []string
			for _, o := range q.objs {
				objs = append(objs, fmt.Sprintf("%s:%s expired=%d survived=%d", o.name(), strings.Join(o.shape, "."), o.expired, o.survived))
			}
			n := len(q.log)
			if n > 16 {
				n = 16
			}
			ctx.Sample(map[string]any{"sequence": q.name, "flavor": q.flavor, "objects": objs, "first_commands": q.log[:n]})
		}
	}
}

// checkFence: every object inside the fence that expired (or was deleted by the
// client) must have produced a "del" notification.
func (q *seqRun) checkFence() {
	need := map[string]int{}
	total := 0
	for _, o := range q.objs {
		if o.kind == "obj" && !o.str && o.st != stTainted && o.dels > 0 {
			need[o.id] += o.dels
			total += o.dels
		}
	}
	if total == 0 {
		return
	}
	deadline := time.Now().Add(lateBound)
	for {
		missing := ""
		for id, n := range need {
			if q.fence.delCount(id) < n {
				missing = id
				break
			}
		}
		if missing == "" {
			q.e.ctx.Count("fence_del_messages_matched", int64(total))
			q.e.ctx.Eval(total)
			return
		}
		if time.Now().After(deadline) {
			ok, err := q.ping(q.c)
			if err != nil {
				return
			}
			if !ok {
				q.e.inconclusive("fence del message missing while PING was slow")
				return
			}
			var o *obj
			for _, x := range q.objs {
				if x.id == missing {
					o = x
				}
			}
			q.violation("fence:no-del", fmt.Sprintf("inside fence f%s received %d \"command\":\"del\" messages for id %s, expected >= %d (expiries observed + client deletes)", q.name, q.fence.delCount(missing), missing, need[missing]), o, map[string]any{"fence_messages_total": q.fence.msgs})
			return
		}
		time.Sleep(50 * time.Millisecond)
	}
}
