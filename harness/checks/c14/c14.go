package c14

import (
	"fmt"
	"math/rand"
	"os"
	"path/filepath"
	"strconv"
	"strings"
	"sync"
	"time"

	"verifharness/core"
	"verifharness/srv"
)

// group is one server process with several scenarios running concurrently on
// separate keys; after they finished the log is checked and the server restarted.
type group struct {
	e    *env
	idx  int
	kind string // "plain" | "race"
	bin  string
	senv []string
	s    *srv.Server
	scns []*seqRun
}

func (g *group) start() bool {
	s, err := srv.Start(srv.Opts{Bin: g.bin, Env: g.senv})
	if err != nil {
		g.e.inconclusive("server start: " + clip(err.Error(), 300))
		return false
	}
	g.s = s
	return true
}

func (g *group) serverDied(when string) bool {
	if g.s.Alive() {
		return false
	}
	_, site := g.s.Crashed()
	g.e.inconclusive(fmt.Sprintf("server died %s (%s): %s", when, site, clip(g.s.StderrTail(600), 600)))
	return true
}

func (g *group) run(flavors []string, seedBase int64) {
	if !g.start() {
		return
	}
	defer func() { g.s.Kill9() }()
	var wg sync.WaitGroup
	for i, fl := range flavors {
		name := fmt.Sprintf("g%ds%d", g.idx, i)
		q := &seqRun{scn: newScn(g.e, name, fl), rng: g.e.ctx.SubRng(seedBase + int64(i)), addr: g.s.Addr(), key: "k" + name, key2: "k" + name + "r"}
		switch fl {
		case "hooks":
			q.hooks = true
		case "bulk":
			g.scns = append(g.scns, q)
			wg.Add(1)
			go func() { defer wg.Done(); q.runBulk() }()
			continue
		}
		g.scns = append(g.scns, q)
		wg.Add(1)
		go func() { defer wg.Done(); q.run() }()
	}
	wg.Wait()
	if g.serverDied("during the scenarios") || g.e.stop() {
		return
	}
	g.postChecks()
}

// postChecks: every observed expiry is a logged sweeper entry; a restart does not
// resurrect anything and keeps the survivors.
func (g *group) postChecks() {
	ctx := g.e.ctx
	c, err := dial(g.s.Addr())
	if err != nil {
		g.e.inconclusive("post-check dial: " + err.Error())
		return
	}
	// any reply flushes the log buffer (prewrite); then the file is complete
	if _, err := c.c.Do("PING"); err != nil {
		c.close()
		g.serverDied("before the log check")
		return
	}
	c.close()
	cmds, err := parseAOF(g.s.AOFPath())
	if err != nil {
		g.e.inconclusive("aof parse: " + err.Error())
		return
	}
	ix := buildIndex(cmds)
	for _, q := range g.scns {
		if q.aborted {
			continue
		}
		for _, e := range q.exps {
			si, di := ix.match(e)
			if si < 0 {
				g.e.inconclusive(fmt.Sprintf("log check: %s #%d of %s/%s not found in appendonly.aof", e.setCmd, e.setOrd, e.setKey, e.id))
				continue
			}
			ctx.Eval(1)
			if di < 0 {
				var near [][]string
				for j := si; j < len(cmds) && len(near) < 12; j++ {
					if len(cmds[j]) > 1 && (cmds[j][1] == e.expKey || cmds[j][1] == e.setKey) {
						near = append(near, clipList(cmds[j]))
					}
				}
				pfx := ""
				if e.delCmd != "del" {
					pfx = e.delCmd[3:] + ":"
				}
				q.violation(pfx+"aof:no-"+e.delCmd, fmt.Sprintf("expiry of %s %s observed by the client but appendonly.aof has no sweeper entry `%s %s %s` after entry #%d (%s #%d)",
					e.expKey, e.id, e.delCmd, e.expKey, e.id, si, e.setCmd, e.setOrd), nil, map[string]any{"aof_entries_for_key_after_set": near, "aof_entries_total": len(cmds)})
				continue
			}
			ctx.Count("aof_sweeper_entries_matched", 1)
		}
	}
	// restart
	if !g.s.Term(15 * time.Second) {
		g.e.inconclusive("server did not stop on SIGTERM within 15 s")
		return
	}
	ns, err := g.s.Restart()
	if err != nil {
		g.e.inconclusive("restart: " + clip(err.Error(), 300))
		return
	}
	g.s = ns
	ctx.Count("restarts", 1)
	c, err = dial(ns.Addr())
	if err != nil {
		g.e.inconclusive("dial after restart: " + err.Error())
		return
	}
	defer c.close()
	for _, q := range g.scns {
		if q.aborted {
			continue
		}
		q.note("server restarted on the same data directory")
		for _, o := range q.objs {
			if o.st == stTainted || o.st == stNone {
				continue
			}
			if o.st == stExists && o.d != nil {
				continue // the replayed SET EX starts a new TTL: not judged
			}
			var present bool
			var cmd string
			switch o.kind {
			case "obj":
				r, _, _, err := q.do(c, "GET", o.key, o.id)
				if err != nil {
					g.serverDied("after restart")
					return
				}
				abs, ok := absentReply(r)
				if !ok {
					g.e.inconclusive("unexpected GET reply after restart: " + r.String())
					return
				}
				present, cmd = !abs, "get"
			default:
				cmd = map[string]string{"chan": "CHANS", "hook": "HOOKS"}[o.kind]
				r, _, _, err := q.do(c, cmd, o.id)
				if err != nil || r.Kind != '*' {
					g.serverDied("after restart")
					return
				}
				present, cmd = len(r.Arr) > 0, strings.ToLower(cmd)
			}
			ctx.Eval(1)
			ctx.Count("restart_reads_judged", 1)
			switch {
			case o.st == stGone && present:
				q.violation(o.prefix()+"restart:resurrected:after-"+o.goneHow, fmt.Sprintf("%s was gone before the restart (%s) but %s shows it after restarting on the same data directory", o.name(), o.goneHow, cmd), o, nil)
			case o.st == stExists && !present:
				q.violation(o.prefix()+"restart:survivor-lost", fmt.Sprintf("%s (no deadline) is missing after the restart", o.name()), o, nil)
			}
		}
	}
}

// ---------------------------------------------------------------- bulk

// runBulk: 50..500 objects expiring together, mixed with objects that survive.
func (q *seqRun) runBulk() {
	var err error
	q.c, err = dial(q.addr)
	if err != nil {
		q.harness("dial: %v", err)
		return
	}
	defer q.c.close()
	ctx := q.e.ctx
	N := 50 + q.rng.Intn(451)
	M := N/5 + 4
	T := time.Duration(1000+q.rng.Intn(1001)) * time.Millisecond
	q.sample = 24
	r, _, _, err := q.do(q.c, "SETCHAN", "f"+q.name, "WITHIN", q.key, "FENCE", "BOUNDS", "10", "10", "11", "11")
	if err != nil || r.Kind != ':' {
		q.harness("SETCHAN: %v %s", err, r.String())
		return
	}
	q.fence, err = subscribe(q.addr, "f"+q.name)
	if err != nil {
		q.harness("subscribe: %v", err)
		return
	}
	defer q.fence.close()
	// survivors: perm (no EX), long (EX 1000), persisted, overwritten
	type surv struct {
		o    *obj
		mode int
	}
	var survs []surv
	total := N + M
	perm := q.rng.Perm(total)
	isSurv := map[int]int{}
	for j := 0; j < M; j++ {
		isSurv[perm[j]] = 1 + j%4
	}
	var batch [][]string
	var bobjs []*obj
	for i := 0; i < total; i++ {
		o := q.newObj(q.key, fmt.Sprintf("b%04d", i), i)
		mode := isSurv[i]
		ordKey := o.kind + "\x00" + o.key + "\x00" + o.id
		q.ords[ordKey]++
		o.setOrd, o.setKey = q.ords[ordKey], o.key
		var a []string
		switch mode {
		case 1:
			a = q.setArgs(o, 0)
		case 2:
			a = q.setArgs(o, 1000*time.Second)
		default:
			a = q.setArgs(o, T)
		}
		if mode != 0 {
			survs = append(survs, surv{o, mode})
		}
		batch = append(batch, a)
		bobjs = append(bobjs, o)
	}
	// pipelined: t_send before the first byte of the whole batch, t_ack after the last reply
	time.Sleep(time.Duration(q.rng.Intn(151)) * time.Millisecond)
	send := time.Now()
	for _, a := range batch {
		if err := q.c.c.Send(a...); err != nil {
			q.aborted = true
			return
		}
	}
	for range batch {
		r, err := q.c.c.Recv()
		if err != nil || r.Kind != '+' {
			q.aborted = true
			if err == nil {
				q.harness("bulk SET reply %s", r.String())
			}
			return
		}
	}
	ack := time.Now()
	q.log = append(q.log, logEnt{q.ms(send), q.ms(ack), []string{"# pipelined", strconv.Itoa(total), "x SET", q.key, "b0000..", "EX", fmtT(T), "POINT ..", fmt.Sprintf("(%d expiring, %d survivors: no EX / EX 1000 / PERSIST / overwritten)", N, M)}, "+OK x " + strconv.Itoa(total)})
	for i, o := range bobjs {
		o.st = stExists
		o.shape = []string{"SE"}
		switch isSurv[i] {
		case 1:
			o.shape = []string{"S"}
		case 2:
			o.d = &dl{send: send, ack: ack, T: 1000 * time.Second, op: "set-ex"}
		default:
			o.d = &dl{send: send, ack: ack, T: T, op: "set-ex"}
		}
	}
	for _, sv := range survs {
		if q.aborted {
			return
		}
		switch sv.mode {
		case 3:
			q.opPersist(sv.o)
		case 4:
			q.opSet(sv.o, 0)
		}
	}
	q.battery(q.key) // early: everything must be there
	// around the deadline: counts only (bounds judged), then per-object knowledge
	end := send.Add(T)
	q.sleepUntil(end.Add(-150 * time.Millisecond))
	for !q.aborted && time.Now().Before(ack.Add(T+1500*time.Millisecond)) {
		q.battery(q.key)
		gone := 0
		for _, o := range bobjs {
			if o.st == stGone {
				gone++
			}
		}
		if gone >= N {
			break
		}
		time.Sleep(time.Duration(20+q.rng.Intn(60)) * time.Millisecond)
	}
	q.sleepUntil(ack.Add(T + lateBound + 20*time.Millisecond))
	for try := 0; try < 6 && !q.aborted; try++ {
		q.retry = false
		q.battery(q.key)
		if !q.retry {
			break
		}
		time.Sleep(400 * time.Millisecond)
	}
	if q.retry && !q.aborted {
		q.e.inconclusive("bulk: objects still visible after the bound but PING never answered within 100 ms")
	}
	if !q.aborted {
		q.checkFence()
	}
	if q.aborted {
		ctx.Count("scenarios_aborted", 1)
		return
	}
	ctx.Count("bulk_scenarios", 1)
	ex := 0
	for _, o := range bobjs {
		ex += o.expired
	}
	ctx.Count("bulk_objects_expired", int64(ex))
	if nt, _ := q.nonTrivial(); nt {
		ctx.Distinct(fmt.Sprintf("bulk|n=%d..|SE|SE.P|SE.S|S", N/100*100))
	}
	q.e.mu.Lock()
	if q.e.sampled < 8 {
		q.e.sampled++
		ctx.Sample(map[string]any{"bulk": q.name, "expiring_together": N, "survivors": M, "T_s": T.Seconds(), "expired_observed": ex})
	}
	q.e.mu.Unlock()
}

// ---------------------------------------------------------------- follower

func serverField(c *cli, q *scn, name string) (string, bool) {
	r, _, _, err := q.do(c, "SERVER")
	if err != nil || r.Kind != '*' {
		return "", false
	}
	for i := 0; i+1 < len(r.Arr); i += 2 {
		if r.Arr[i].Str == name {
			return r.Arr[i+1].Text(), true
		}
	}
	return "", false
}

// runFollower: a follower that starts following late (its own replayed TTLs end
// much later than the leader's) must lose the objects through the leader's logged DEL.
func runFollower(e *env, idx int, bin string, senv []string, rng *rand.Rand) {
	ctx := e.ctx
	q := &seqRun{scn: newScn(e, fmt.Sprintf("fol%d", idx), "follower"), rng: rng, key: fmt.Sprintf("kfol%d", idx)}
	leader, err := srv.Start(srv.Opts{Bin: bin, Env: senv})
	if err != nil {
		e.inconclusive("leader start: " + clip(err.Error(), 300))
		return
	}
	defer leader.Kill9()
	q.addr = leader.Addr()
	q.c, err = dial(q.addr)
	if err != nil {
		e.inconclusive("dial leader: " + err.Error())
		return
	}
	defer q.c.close()
	T := time.Duration(2400+rng.Intn(601)) * time.Millisecond
	nx := 2 + rng.Intn(3)
	a := q.newObj(q.key, "anchor", 50)
	q.opSet(a, 0)
	var xs []*obj
	for i := 0; i < nx && !q.aborted; i++ {
		o := q.newObj(q.key, fmt.Sprintf("x%d", i), i)
		q.opSet(o, T)
		xs = append(xs, o)
	}
	p := q.newObj(q.key, "p", 40)
	q.opSet(p, T) // same T: the follower-read guard t_follow+T covers it
	if !q.aborted {
		q.opPersist(p)
	}
	if q.aborted {
		ctx.Count("scenarios_aborted", 1)
		return
	}
	first := xs[0].d.send
	q.sleepUntil(first.Add(T - time.Duration(500+rng.Intn(300))*time.Millisecond))
	fol, err := srv.Start(srv.Opts{Bin: bin, Env: senv})
	if err != nil {
		e.inconclusive("follower start: " + clip(err.Error(), 300))
		return
	}
	defer fol.Kill9()
	fc, err := dial(fol.Addr())
	if err != nil {
		e.inconclusive("dial follower: " + err.Error())
		return
	}
	defer fc.close()
	tFollow := time.Now()
	r, _, _, err := q.do(fc, "FOLLOW", "127.0.0.1", strconv.Itoa(leader.Port))
	if err != nil || r.Kind != '+' {
		e.inconclusive(fmt.Sprintf("FOLLOW: %v %s", err, r.String()))
		return
	}
	// leader: wait until every x is observed gone (straddling reads are not judged)
	watch := time.Now().Add(30 * time.Second)
	for !q.aborted {
		if !q.tick() {
			break
		}
		if time.Now().After(watch) {
			q.harness("follower scenario: drain watchdog")
			return
		}
		time.Sleep(30 * time.Millisecond)
	}
	if q.aborted {
		ctx.Count("scenarios_aborted", 1)
		return
	}
	allGone := true
	for _, o := range xs {
		if o.st != stGone {
			allGone = false
		}
	}
	if !allGone {
		return // a violation was already reported on the leader
	}
	// the expiries are applied on the leader, hence (by the statement) logged; a reply flushes the log
	if _, err := q.ping(q.c); err != nil {
		return
	}
	ls, ok := serverField(q.c, q.scn, "aof_size")
	L, _ := strconv.Atoi(ls)
	if !ok || L == 0 {
		e.inconclusive("leader aof_size unreadable")
		return
	}
	watch = time.Now().Add(20 * time.Second)
	for {
		fs, ok := serverField(fc, q.scn, "aof_size")
		cu, _ := serverField(fc, q.scn, "caught_up")
		F, _ := strconv.Atoi(fs)
		if ok && F >= L && cu == "true" {
			break
		}
		if q.aborted {
			e.inconclusive("follower connection failed")
			return
		}
		if time.Now().After(watch) {
			e.inconclusive(fmt.Sprintf("follower did not reach the leader's aof_size %d within 20 s (at %s, caught_up=%s)", L, fs, cu))
			return
		}
		time.Sleep(20 * time.Millisecond)
	}
	// until tFollow+T the follower's own sweeper cannot have fired: its log position is the leader's
	for _, o := range append(append([]*obj{}, xs...), a, p) {
		r, _, rd, err := q.do(fc, "GET", o.key, o.id)
		if err != nil {
			return
		}
		abs, ok := absentReply(r)
		if !ok {
			e.inconclusive("unexpected follower GET reply " + r.String())
			return
		}
		if !rd.Before(tFollow.Add(T - guardBand)) {
			ctx.Count("follower_reads_not_judged_late", 1)
			continue
		}
		ctx.Eval(1)
		ctx.Count("follower_checks", 1)
		switch {
		case o.st == stGone && !abs:
			q.violation("follower:still-present", fmt.Sprintf("%s expired on the leader; the follower (following since %.1f ms, caught up, aof_size >= leader's %d) still serves it", o.name(), q.ms(tFollow), L), o, nil)
		case o.st == stExists && o.d == nil && abs:
			q.violation("follower:survivor-missing", fmt.Sprintf("%s has no deadline on the leader but is missing on the caught-up follower", o.name()), o, nil)
		}
	}
	ctx.Count("follower_scenarios", 1)
}

func mkdirAll(d string) error { return os.MkdirAll(d, 0o755) }

// runRearm (opt-in, env C14_REARM=1): an object whose server is restarted shortly
// before the deadline. The log holds the relative `EX seconds`, so the replay
// starts a new TTL at load time; the object is then served more than 5 s past its
// deadline. Off by default: it is outside the 0.3-3 s workload of the design and
// fires on the pinned tree (key restart:ttl-rearmed).
func runRearm(e *env, bin string, senv []string) {
	q := &seqRun{scn: newScn(e, "rearm", "rearm"), key: "krearm"}
	s, err := srv.Start(srv.Opts{Bin: bin, Env: senv})
	if err != nil {
		e.inconclusive("rearm: server start: " + clip(err.Error(), 300))
		return
	}
	defer func() { s.Kill9() }()
	q.addr = s.Addr()
	if q.c, err = dial(q.addr); err != nil {
		return
	}
	T := 6500 * time.Millisecond
	o := q.newObj(q.key, "a", 0)
	q.opSet(o, T)
	if q.aborted {
		return
	}
	q.readOne(o, true, false)
	q.c.close()
	q.sleepUntil(o.d.send.Add(T - 700*time.Millisecond))
	q.note("SIGTERM, restart on the same data directory")
	if !s.Term(15 * time.Second) {
		e.inconclusive("rearm: server did not stop")
		return
	}
	if s, err = s.Restart(); err != nil {
		e.inconclusive("rearm: restart: " + clip(err.Error(), 300))
		return
	}
	if q.c, err = dial(s.Addr()); err != nil {
		return
	}
	defer q.c.close()
	q.sleepUntil(o.d.lateStart().Add(20 * time.Millisecond))
	for try := 0; try < 5 && !q.aborted; try++ {
		ok1, _ := q.ping(q.c)
		r, rs, rd, err := q.do(q.c, "GET", o.key, o.id)
		if err != nil {
			return
		}
		ok2, _ := q.ping(q.c)
		abs, _ := absentReply(r)
		e.ctx.Eval(1)
		if abs {
			e.ctx.Count("rearm_checks_passed", 1)
			return
		}
		if ok1 && ok2 {
			t, _, _, _ := q.do(q.c, "TTL", o.key, o.id)
			q.violation("restart:ttl-rearmed", fmt.Sprintf("%s (SET EX %.1f acked at %.1f ms), server restarted ~0.7 s before the deadline: still served by GET sent %.0f ms after t_ack+T (bound 5000 ms, PING within 100 ms); TTL now %s - the replayed `SET .. EX seconds` starts a new TTL at load time; read sent at %.1f ms, reply at %.1f ms",
				o.name(), T.Seconds(), q.ms(o.d.ack), rs.Sub(o.d.ack.Add(T)).Seconds()*1000, t.String(), q.ms(rs), q.ms(rd)), o, nil)
			return
		}
		time.Sleep(300 * time.Millisecond)
	}
}

// ---------------------------------------------------------------- Run

// Run is the C14 check.
func Run(ctx *core.Ctx) {
	ctx.Rule = "PRNG-generated sequences over 3-5 objects (+ a permanent anchor) of one collection each: per object a script of SET EX / SET / EXPIRE / PERSIST / DEL(+recreate) / FSET / JSET, randomly interleaved, optionally one RENAME of the collection (ids recreated under the old name) or an inside fence with a subscriber; TTLs 0.3-3 s; a PRNG 0-150 ms sleep before every step (phase vs the 100 ms sweeper); reads (GET, TTL, EXISTS, SCAN IDS/COUNT, WITHIN IDS/COUNT, NEARBY, SEARCH for strings, CHANS/HOOKS) after steps, ~200 ms before each deadline, polled after it, at cancelled deadline + 1 s, and after t_ack+T+5 s. Same for channels/hooks with EX; bulk: 50-500 objects with one TTL set in one pipeline plus survivors; follower: FOLLOW issued ~0.6 s before the leader's deadlines; a restarted follower promoted with FOLLOW no one must expire what it is given afterwards; huge lifetimes (4e9 s .. 1.8e308 s through SET EX, EXPIRE, SETCHAN EX): if acknowledged, still there after a dozen sweeper passes. After all scenarios of a server: sweeper del/delchan/delhook entries matched in appendonly.aof, SIGTERM + restart on the same directory, presence re-read. evaluations = judged observations (presence reads, TTL replies, counts, log entries, fence messages, follower and restart reads). non-trivial = a sequence in which >= 1 object expired and >= 1 object was seen alive more than 1 s after its predecessor's cancelled deadline; distinct key = flavor + set of per-object op shapes"
	ctx.Assumptions = []string{
		"client and servers share one machine clock; no wall-clock step during the run (the server compares wall-clock nanoseconds)",
		"never-early judged against the client's send time minus a 20 ms guard band; eventual judged 5 s after ack+T and only when PING answered within 100 ms before and after the read; straddling reads are not judged",
		"after a restart objects that still have a deadline are not judged (the replayed SET EX starts a new TTL)",
		"follower reads judged only before t_follow+T (before the follower's own sweeper can act on its replayed deadlines)",
		"data race reports of the race build are a side observation, not a C14 verdict",
	}
	e := &env{ctx: ctx, incReason: map[string]bool{}}
	bin, err := srv.Build("plain")
	if err != nil {
		ctx.Fatal("%v", err)
	}
	bins := map[string]string{"plain": bin}
	envs := map[string][]string{"plain": nil}
	racePrefix := ""
	if ctx.Thorough() {
		rb, err := srv.Build("race")
		if err != nil {
			ctx.Fatal("%v", err)
		}
		bins["race"] = rb
		racePrefix = filepath.Join(srv.WorkDir(), "c14race", "race")
		if err := mkdirAll(filepath.Dir(racePrefix)); err != nil {
			ctx.Fatal("%v", err)
		}
		envs["race"] = []string{"GORACE=halt_on_error=0 log_path=" + racePrefix}
	}
	flavorOf := func(rng *rand.Rand) string {
		return []string{"pt", "pt", "str", "fence", "fence", "rename", "rename"}[rng.Intn(7)]
	}
	rounds := ctx.Pick(1, 10)
	groupsPerRound := ctx.Pick(4, 5)
	seqPerGroup := ctx.Pick(8, 8)
	gidx := 0
	for round := 0; round < rounds && !e.stop(); round++ {
		kind := "plain"
		if ctx.Thorough() && round%2 == 1 {
			kind = "race"
		}
		var wg sync.WaitGroup
		for gi := 0; gi < groupsPerRound; gi++ {
			gidx++
			g := &group{e: e, idx: gidx, kind: kind, bin: bins[kind], senv: envs[kind]}
			var fl []string
			for i := 0; i < seqPerGroup; i++ {
				fl = append(fl, flavorOf(ctx.Rng))
			}
			fl = append(fl, "hooks")
			if gi == 0 || (gi == 1 && ctx.Rng.Intn(2) == 0) {
				fl = append(fl, "bulk")
			}
			seed := int64(gidx) * 100
			wg.Add(1)
			go func() { defer wg.Done(); g.run(fl, seed) }()
		}
		if round == 0 {
			wg.Add(1)
			go func() { defer wg.Done(); runHuge(e, bins[kind], envs[kind]) }()
			wg.Add(1)
			go func() { defer wg.Done(); runPromoted(e, bins[kind], envs[kind]) }()
		}
		if round == 0 && os.Getenv("C14_REARM") != "0" {
			wg.Add(1)
			go func() { defer wg.Done(); runRearm(e, bins[kind], envs[kind]) }()
		}
		nfol := ctx.Pick(2, 2)
		for i := 0; i < nfol; i++ {
			gidx++
			idx := gidx
			rng := ctx.SubRng(int64(idx)*100 + 77)
			wg.Add(1)
			go func() { defer wg.Done(); runFollower(e, idx, bins[kind], envs[kind], rng) }()
		}
		wg.Wait()
		ctx.Logf("round %d/%d (%s build) done: sequences=%d expiries=%d violations=%d", round+1, rounds, kind, ctx.Counter("sequences"), ctx.Counter("expiries_observed"), ctx.Violations())
	}
	ctx.Set("max_delay_until_first_absent_observation_ms_includes_client_poll_gaps", e.maxLatMs)
	if racePrefix != "" {
		ctx.Set("race_reports_side_observation", len(srv.RaceReports(racePrefix)))
	}
	ctx.MinDistinct = ctx.Pick(5, 40)
}
