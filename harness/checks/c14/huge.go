package c14

import (
	"fmt"
	"net"
	"time"

	"verifharness/respc"
	"verifharness/srv"
)

// runHuge: lifetimes far beyond anything the sweeper should reach (centuries,
// values whose nanosecond form does not fit 63 bits, the largest floats). A
// server may refuse such a value with an error; if it acknowledges it, the
// object / channel must not be gone a second later ("never early").
func runHuge(e *env, bin string, senv []string) {
	s, err := srv.Start(srv.Opts{Bin: bin, Env: senv})
	if err != nil {
		e.inconclusive("huge: server start: " + clip(err.Error(), 300))
		return
	}
	defer s.Kill9()
	c, err := respc.Dial(s.Addr(), 5*time.Second)
	if err != nil {
		e.inconclusive("huge: " + err.Error())
		return
	}
	defer c.Close()
	c.Timeout = 10 * time.Second
	values := []string{"4000000000", "7300000000", "7500000000", "9000000000", "9300000000", "10000000000", "500000000000", "9223372036", "9223372037", "9223372036854775807", "1e19", "1e30", "1.7976931348623157e308", "nan", "NaN", "inf", "+Inf"}
	type probe struct {
		what  string
		check []string
		val   string
	}
	var probes []probe
	for i, v := range values {
		id := fmt.Sprintf("h%d", i)
		if r, err := c.Do("SET", "khuge", "set-"+id, "EX", v, "POINT", "1", "2"); err == nil && !r.IsErr() {
			probes = append(probes, probe{"SET khuge set-" + id + " EX " + v + " POINT 1 2", []string{"GET", "khuge", "set-" + id}, v})
		}
		c.Do("SET", "khuge", "exp-"+id, "POINT", "1", "2")
		if r, err := c.Do("EXPIRE", "khuge", "exp-"+id, v); err == nil && !r.IsErr() && r.Int == 1 {
			probes = append(probes, probe{"EXPIRE khuge exp-" + id + " " + v, []string{"GET", "khuge", "exp-" + id}, v})
		}
		if r, err := c.Do("SETCHAN", "chuge-"+id, "EX", v, "NEARBY", "khuge", "FENCE", "POINT", "1", "2", "100"); err == nil && !r.IsErr() {
			probes = append(probes, probe{"SETCHAN chuge-" + id + " EX " + v + " ...", []string{"CHANS", "chuge-" + id}, v})
		}
	}
	if len(probes) == 0 {
		e.inconclusive("huge: no huge lifetime was accepted")
		return
	}
	time.Sleep(1200 * time.Millisecond) // a dozen sweeper passes
	for _, p := range probes {
		r, err := c.Do(p.check...)
		if err != nil {
			e.inconclusive("huge: " + err.Error())
			return
		}
		e.ctx.Eval(1)
		e.ctx.Count("huge_lifetime_probes", 1)
		gone := r.Nil || (p.check[0] == "CHANS" && len(r.Arr) == 0) || r.IsErr()
		if gone {
			kind := map[string]string{"GET": "object", "CHANS": "channel"}[p.check[0]]
			e.ctx.Violation("early:huge-lifetime:"+kind, fmt.Sprintf("`%s` was acknowledged, and 1.2 s later %v answers %s: a lifetime of %s seconds ended at once", p.what, p.check, r.String(), p.val),
				map[string]any{"commands": []any{p.what, "sleep 1.2 s", p.check}, "reply": r.String()})
			return
		}
	}
}

// runPromoted: a follower is restarted (so it starts as a follower, from its
// configuration) and then promoted with FOLLOW no one. Objects and channels it
// is given afterwards with a short lifetime must go away like on any leader.
func runPromoted(e *env, bin string, senv []string) {
	leader, err := srv.Start(srv.Opts{Bin: bin, Env: senv})
	if err != nil {
		e.inconclusive("promoted: " + clip(err.Error(), 200))
		return
	}
	defer leader.Kill9()
	follower, err := srv.Start(srv.Opts{Bin: bin, Env: senv})
	if err != nil {
		e.inconclusive("promoted: " + clip(err.Error(), 200))
		return
	}
	defer func() { follower.Kill9() }()
	lc, err := respc.Dial(leader.Addr(), 5*time.Second)
	if err != nil {
		e.inconclusive("promoted: " + err.Error())
		return
	}
	defer lc.Close()
	lc.Do("SET", "kp", "keep", "POINT", "1", "1")
	fc, err := respc.Dial(follower.Addr(), 5*time.Second)
	if err != nil {
		e.inconclusive("promoted: " + err.Error())
		return
	}
	host, port, _ := net.SplitHostPort(leader.Addr())
	if r, err := fc.Do("FOLLOW", host, port); err != nil || r.IsErr() {
		fc.Close()
		e.inconclusive("promoted: FOLLOW failed")
		return
	}
	fc.Close()
	time.Sleep(1500 * time.Millisecond)
	if !follower.Term(15 * time.Second) {
		e.inconclusive("promoted: follower did not stop")
		return
	}
	nf, err := follower.Restart()
	if err != nil {
		e.inconclusive("promoted: follower restart: " + clip(err.Error(), 200))
		return
	}
	follower = nf
	c, err := respc.Dial(follower.Addr(), 5*time.Second)
	if err != nil {
		e.inconclusive("promoted: " + err.Error())
		return
	}
	defer c.Close()
	c.Timeout = 10 * time.Second
	if r, err := c.Do("FOLLOW", "no", "one"); err != nil || r.IsErr() {
		e.inconclusive("promoted: FOLLOW no one failed: " + r.String())
		return
	}
	var acked time.Time
	ok := true
	for _, cmd := range [][]string{{"SET", "kp", "short", "EX", "0.8", "POINT", "2", "2"}, {"SET", "kp", "str", "EX", "0.8", "STRING", "v"}, {"SETCHAN", "cpromoted", "EX", "0.8", "NEARBY", "kp", "FENCE", "POINT", "1", "1", "100"}} {
		r, err := c.Do(cmd...)
		if err != nil || r.IsErr() {
			ok = false
		}
		acked = time.Now()
	}
	if !ok {
		e.inconclusive("promoted: the promoted server refused a write")
		return
	}
	time.Sleep(time.Until(acked.Add(800*time.Millisecond + 5*time.Second)))
	p1, _ := c.Do("PING")
	g1, err1 := c.Do("GET", "kp", "short")
	g2, err2 := c.Do("GET", "kp", "str")
	ch, err3 := c.Do("CHANS", "cpromoted")
	keep, _ := c.Do("GET", "kp", "keep")
	p2, _ := c.Do("PING")
	if err1 != nil || err2 != nil || err3 != nil || p1.String() != "+PONG" || p2.String() != "+PONG" {
		e.inconclusive("promoted: reads failed")
		return
	}
	e.ctx.Eval(3)
	e.ctx.Count("promoted_follower_checks", 3)
	e.ctx.Distinct("promoted|restart+follow-no-one")
	var late []string
	if !g1.Nil {
		late = append(late, "GET kp short -> "+clip(g1.String(), 60))
	}
	if !g2.Nil {
		late = append(late, "GET kp str -> "+clip(g2.String(), 60))
	}
	if len(ch.Arr) > 0 {
		late = append(late, "CHANS cpromoted still lists the channel")
	}
	if len(late) > 0 {
		e.ctx.Violation("late:promoted-follower", fmt.Sprintf("a follower was restarted and then promoted with FOLLOW no one; objects and a channel set on it with EX 0.8 are still served 5 s after their deadline (kp/keep: %s): %v", clip(keep.String(), 40), late),
			map[string]any{"scenario": "follower restart, FOLLOW no one, SET ... EX 0.8, SETCHAN ... EX 0.8, reads 5 s after the deadline", "late": late})
	}
}
