package c14

import (
	"fmt"
	"time"

	"verifharness/respc"
	"verifharness/srv"
)

// runHuge: lifetimes far beyond anything the sweeper should reach (centuries,
// values whose nanosecond form does not fit 63 bits, the largest floats). A
// server may refuse such a value with an error; if it acknowledges it, the
// object / channel must not be gone a second later ("never early").
func runHuge(e *env, bin string, senv []string) {
	s, err := srv.Start(srv.Opts{Bin: bin, Env: senv})
	if err != nil {
		e.inconclusive("huge: server start: " + clip(err.Error(), 300))
		return
	}
	defer s.Kill9()
	c, err := respc.Dial(s.Addr(), 5*time.Second)
	if err != nil {
		e.inconclusive("huge: " + err.Error())
		return
	}
	defer c.Close()
	c.Timeout = 10 * time.Second
	values := []string{"4000000000", "7300000000", "7500000000", "9000000000", "9300000000", "10000000000", "500000000000", "9223372036", "9223372037", "9223372036854775807", "1e19", "1e30", "1.7976931348623157e308"}
	type probe struct {
		what  string
		check []string
		val   string
	}
	var probes []probe
	for i, v := range values {
		id := fmt.Sprintf("h%d", i)
		if r, err := c.Do("SET", "khuge", "set-"+id, "EX", v, "POINT", "1", "2"); err == nil && !r.IsErr() {
			probes = append(probes, probe{"SET khuge set-" + id + " EX " + v + " POINT 1 2", []string{"GET", "khuge", "set-" + id}, v})
		}
		c.Do("SET", "khuge", "exp-"+id, "POINT", "1", "2")
		if r, err := c.Do("EXPIRE", "khuge", "exp-"+id, v); err == nil && !r.IsErr() && r.Int == 1 {
			probes = append(probes, probe{"EXPIRE khuge exp-" + id + " " + v, []string{"GET", "khuge", "exp-" + id}, v})
		}
		if r, err := c.Do("SETCHAN", "chuge-"+id, "EX", v, "NEARBY", "khuge", "FENCE", "POINT", "1", "2", "100"); err == nil && !r.IsErr() {
			probes = append(probes, probe{"SETCHAN chuge-" + id + " EX " + v + " ...", []string{"CHANS", "chuge-" + id}, v})
		}
	}
	if len(probes) == 0 {
		e.inconclusive("huge: no huge lifetime was accepted")
		return
	}
	time.Sleep(1200 * time.Millisecond) // a dozen sweeper passes
	for _, p := range probes {
		r, err := c.Do(p.check...)
		if err != nil {
			e.inconclusive("huge: " + err.Error())
			return
		}
		e.ctx.Eval(1)
		e.ctx.Count("huge_lifetime_probes", 1)
		gone := r.Nil || (p.check[0] == "CHANS" && len(r.Arr) == 0) || r.IsErr()
		if gone {
			kind := map[string]string{"GET": "object", "CHANS": "channel"}[p.check[0]]
			e.ctx.Violation("early:huge-lifetime:"+kind, fmt.Sprintf("`%s` was acknowledged, and 1.2 s later %v answers %s: a lifetime of %s seconds ended at once", p.what, p.check, r.String(), p.val),
				map[string]any{"commands": []any{p.what, "sleep 1.2 s", p.check}, "reply": r.String()})
			return
		}
	}
}
