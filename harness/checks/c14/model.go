// Package c14: expiration is never early, always eventual, and visible as a
// delete everywhere (DESIGN.md section 4, C14).
//
// Time discipline (the only property whose oracle mentions wall-clock):
//   - "never early": a read whose reply was RECEIVED before t_send+T-guard (client
//     monotonic clock, t_send taken before the first byte of the deadline-setting
//     command is written) must show the object. The server computes the deadline
//     after t_send, so this is a lower bound of the server's deadline.
//   - "eventual": a read that was SENT after t_ack+T+5s must not show the object,
//     judged only while PING is answered within 100 ms before and after the read.
//   - reads that straddle [t_send+T-guard, t_ack+T+5s] are never judged; they only
//     update what the client knows (an absent reply means "expired").
package c14

import (
	"fmt"
	"math"
	"strings"
	"sync"
	"time"

	"verifharness/core"
	"verifharness/respc"
)

const (
	guardBand = 20 * time.Millisecond // slack for wall/monotonic slew on the server
	lateBound = 5 * time.Second
	pingLimit = 100 * time.Millisecond
	staleWait = time.Second
)

const (
	stNone = iota // never created
	stExists
	stGone
	stTainted // not judged any more (after a violation or an ambiguous write)
)

// dl is one deadline as the client knows it.
type dl struct {
	send, ack   time.Time
	T           time.Duration
	op          string // "set-ex" | "expire"
	kept        string // last deadline-preserving op applied since: "", "fset", "rename"
	earlyProbed bool
	lastPoll    time.Time
}

func (d *dl) earlyEnd() time.Time  { return d.send.Add(d.T - guardBand) }
func (d *dl) lateStart() time.Time { return d.ack.Add(d.T + lateBound) }
func (d *dl) label() string {
	if d.kept != "" {
		return d.op + "+" + d.kept
	}
	return d.op
}

// staleRec is a predecessor's deadline that was cancelled by `cancel`.
type staleRec struct {
	d       dl
	cancel  string
	counted bool
	tried   int
}

func (s *staleRec) checkAt() time.Time { return s.d.ack.Add(s.d.T + staleWait) }

// obj is one object (or channel / hook) of a scenario.
type obj struct {
	kind     string // "obj" | "chan" | "hook"
	key, id  string
	str      bool
	lat, lon float64
	st       int
	goneHow  string // "never" | "del" | "expiry"
	d        *dl
	lastD    *dl // deadline that was observed to fire
	stales   []*staleRec
	shape    []string
	setKey   string
	setOrd   int
	expired  int
	survived int
	dels     int // client deletes acknowledged with 1 + expiries observed (fence del messages expected)
	fsetN    int
	variant  int // hooks: bounds variant so that re-SETCHAN differs
}

func (o *obj) name() string {
	if o.kind == "obj" {
		return o.key + "/" + o.id
	}
	return o.kind + ":" + o.id
}

func (o *obj) prefix() string {
	if o.kind == "obj" {
		return ""
	}
	return o.kind + ":"
}

// expRec is one observed expiry, to be matched with a sweeper entry in the log.
type expRec struct {
	setCmd, setKey, id string
	setOrd             int
	delCmd, expKey     string // expKey: key name when the expiry was observed
	altKey             string // key name at SET time: the sweeper may have fired before a RENAME the client sent in between
	scn                string
}

// finalRec is what must (not) be visible after a restart.
type finalRec struct {
	kind, key, id string
	present       bool
	how           string
	scn           string
}

type logEnt struct {
	SendMs float64  `json:"send_ms"`
	AckMs  float64  `json:"ack_ms"`
	Cmd    []string `json:"cmd"`
	Reply  string   `json:"reply"`
}

// env is shared by all scenarios of a run.
type env struct {
	ctx       *core.Ctx
	mu        sync.Mutex
	maxLatMs  float64
	sampled   int
	incReason map[string]bool
}

func (e *env) stop() bool { return e.ctx.Violations() >= 20 }

func (e *env) inconclusive(reason string) {
	e.mu.Lock()
	defer e.mu.Unlock()
	if e.incReason[reason] || len(e.incReason) > 12 {
		return
	}
	e.incReason[reason] = true
	e.ctx.Inconclusive(reason)
}

func (e *env) latency(ms float64) {
	e.mu.Lock()
	if ms > e.maxLatMs {
		e.maxLatMs = ms
	}
	e.mu.Unlock()
}

// scn is the part common to every scenario: command log, objects, oracle.
type scn struct {
	e       *env
	name    string
	flavor  string
	t0      time.Time
	log     []logEnt
	objs    []*obj
	exps    []expRec
	ords    map[string]int
	aborted bool
	retry   bool // a late read showed the object while PING was slow
	seenKey map[string]int
}

func newScn(e *env, name, flavor string) *scn {
	return &scn{e: e, name: name, flavor: flavor, t0: time.Now(), ords: map[string]int{}}
}

func (q *scn) ms(t time.Time) float64 {
	return math.Round(t.Sub(q.t0).Seconds()*1e4) / 10
}

func clip(s string, n int) string {
	if len(s) > n {
		return s[:n] + "..."
	}
	return s
}

// cli is a connection with socket timeouts.
type cli struct{ c *respc.Conn }

func dial(addr string) (*cli, error) {
	c, err := respc.Dial(addr, 5*time.Second)
	if err != nil {
		return nil, err
	}
	c.Timeout = 20 * time.Second
	return &cli{c}, nil
}

func (c *cli) close() {
	if c != nil && c.c != nil {
		c.c.Close()
	}
}

// do sends one command; send is taken before the first byte is written, ack after
// the whole reply was parsed.
func (q *scn) do(c *cli, args ...string) (respc.Reply, time.Time, time.Time, error) {
	send := time.Now()
	r, err := c.c.Do(args...)
	ack := time.Now()
	rep := ""
	if err != nil {
		rep = "i/o error: " + err.Error()
		q.aborted = true
	} else {
		rep = clip(r.String(), 160)
	}
	if len(q.log) < 4000 {
		q.log = append(q.log, logEnt{q.ms(send), q.ms(ack), args, rep})
	}
	return r, send, ack, err
}

func (q *scn) note(what string) {
	now := time.Now()
	if len(q.log) < 4000 {
		q.log = append(q.log, logEnt{q.ms(now), q.ms(now), []string{"#", what}, ""})
	}
}

// ping measures one PING round trip.
func (q *scn) ping(c *cli) (bool, error) {
	_, s, a, err := q.do(c, "PING")
	if err != nil {
		return false, err
	}
	return a.Sub(s) <= pingLimit, nil
}

func (q *scn) describe(o *obj) map[string]any {
	m := map[string]any{"object": o.name(), "shape": strings.Join(o.shape, "."), "state": []string{"none", "exists", "gone", "tainted"}[o.st]}
	if o.d != nil {
		m["deadline"] = map[string]any{"op": o.d.label(), "T_s": o.d.T.Seconds(), "send_ms": q.ms(o.d.send), "ack_ms": q.ms(o.d.ack)}
	}
	var st []any
	for _, s := range o.stales {
		st = append(st, map[string]any{"cancelled_by": s.cancel, "T_s": s.d.T.Seconds(), "send_ms": q.ms(s.d.send), "ack_ms": q.ms(s.d.ack)})
	}
	if st != nil {
		m["cancelled_deadlines"] = st
	}
	return m
}

func (q *scn) tailLog(n int) []logEnt {
	if len(q.log) > n {
		return q.log[len(q.log)-n:]
	}
	return q.log
}

func (q *scn) violation(key, what string, o *obj, extra map[string]any) {
	if q.seenKey == nil {
		q.seenKey = map[string]int{}
	}
	q.seenKey[key]++
	if q.seenKey[key] > 1 {
		// one report per scenario and key; the object is not judged any further
		if o != nil {
			o.st = stTainted
		}
		q.e.ctx.Count("further_violations_same_scenario_and_key", 1)
		return
	}
	rep := map[string]any{"scenario": q.name, "flavor": q.flavor, "log_times": "milliseconds since scenario start (client monotonic clock)", "commands": q.tailLog(400)}
	if o != nil {
		rep["subject"] = q.describe(o)
		o.st = stTainted
	}
	for k, v := range extra {
		rep[k] = v
	}
	q.e.ctx.Violation(key, "["+q.name+"] "+what, rep)
}

// stalePassed returns the cancel label of the latest cancelled deadline of o that
// could have fired on the server by `t`.
func stalePassed(o *obj, t time.Time) string {
	lab := ""
	for _, s := range o.stales {
		if !s.d.send.Add(s.d.T).After(t) {
			lab = s.cancel
		}
	}
	return lab
}

func (q *scn) creditSurvival(o *obj, rs time.Time) {
	for _, s := range o.stales {
		if !s.counted && rs.After(s.checkAt()) {
			s.counted = true
			o.survived++
			q.e.ctx.Count("survived_predecessor_deadline", 1)
		}
	}
}

func (q *scn) markExpired(o *obj, rd time.Time) {
	o.st = stGone
	o.goneHow = "expiry"
	o.expired++
	o.dels++
	o.lastD = o.d
	q.e.latency(rd.Sub(o.d.send.Add(o.d.T)).Seconds() * 1000)
	o.d = nil
	q.e.ctx.Count("expiries_observed", 1)
	switch o.kind {
	case "obj":
		q.exps = append(q.exps, expRec{"set", o.setKey, o.id, o.setOrd, "del", o.key, o.setKey, q.name})
	case "chan":
		q.exps = append(q.exps, expRec{"setchan", o.id, "", o.setOrd, "delchan", o.id, o.id, q.name})
	case "hook":
		q.exps = append(q.exps, expRec{"sethook", o.id, "", o.setOrd, "delhook", o.id, o.id, q.name})
	}
}

// observe is the oracle for one presence observation of one object.
// rs: before the first byte of the read was written; rd: after its reply was parsed.
func (q *scn) observe(o *obj, present bool, rs, rd time.Time, cmd string, pingOK bool) {
	ctx := q.e.ctx
	if o.st == stTainted {
		return
	}
	ctx.Eval(1)
	pfx := o.prefix()
	at := fmt.Sprintf("read %s sent at %.1f ms, reply at %.1f ms", cmd, q.ms(rs), q.ms(rd))
	switch o.st {
	case stNone, stGone:
		if present {
			how := o.goneHow
			if o.st == stNone {
				how = "never-created"
			}
			q.violation(pfx+"resurrected:after-"+how+":"+cmd, fmt.Sprintf("%s is shown by %s although it is gone (%s); %s", o.name(), cmd, how, at), o, nil)
			return
		}
		if o.st == stGone && o.goneHow == "expiry" && o.lastD != nil && rs.After(o.lastD.lateStart()) {
			ctx.Count("late_reads_judged", 1)
		}
	case stExists:
		if o.d == nil {
			if !present {
				if c := stalePassed(o, rd); c != "" {
					q.violation(pfx+"stale-timer:"+c, fmt.Sprintf("%s has no deadline (its predecessor's deadline was cancelled by %s) but %s does not show it; %s", o.name(), c, cmd, at), o, nil)
				} else {
					q.violation(pfx+"vanished:"+cmd, fmt.Sprintf("%s has no deadline but %s does not show it; %s", o.name(), cmd, at), o, nil)
				}
				return
			}
			q.creditSurvival(o, rs)
			return
		}
		if rd.Before(o.d.earlyEnd()) {
			ctx.Count("early_reads_judged", 1)
			if !present {
				if c := stalePassed(o, rd); c != "" {
					q.violation(pfx+"stale-timer:"+c, fmt.Sprintf("%s (deadline by %s, T=%.3fs sent at %.1f ms) is not shown by %s %.0f ms before its own deadline, at a predecessor's deadline cancelled by %s; %s",
						o.name(), o.d.label(), o.d.T.Seconds(), q.ms(o.d.send), cmd, o.d.send.Add(o.d.T).Sub(rd).Seconds()*1000, c, at), o, nil)
				} else {
					q.violation(pfx+"early:"+o.d.label()+":"+cmd, fmt.Sprintf("%s (deadline by %s, T=%.3fs sent at %.1f ms) is not shown by %s although the reply arrived %.0f ms before t_send+T; %s",
						o.name(), o.d.label(), o.d.T.Seconds(), q.ms(o.d.send), cmd, o.d.send.Add(o.d.T).Sub(rd).Seconds()*1000, at), o, nil)
				}
				return
			}
			q.creditSurvival(o, rs)
			return
		}
		if rs.After(o.d.lateStart()) {
			if !present {
				ctx.Count("late_reads_judged", 1)
				q.markExpired(o, rd)
				return
			}
			if pingOK {
				ctx.Count("late_reads_judged", 1)
				q.violation(pfx+"late:"+o.d.label()+":"+cmd, fmt.Sprintf("%s (deadline by %s, T=%.3fs acked at %.1f ms) is still shown by %s sent %.0f ms after t_ack+T (bound 5000 ms) while PING answers within 100 ms; %s",
					o.name(), o.d.label(), o.d.T.Seconds(), q.ms(o.d.ack), cmd, rs.Sub(o.d.ack.Add(o.d.T)).Seconds()*1000, at), o, nil)
				return
			}
			ctx.Count("late_present_while_ping_slow", 1)
			q.retry = true
			return
		}
		ctx.Count("straddling_reads_not_judged", 1)
		if !present {
			q.markExpired(o, rd)
		}
	}
}

// observeTTL judges a TTL reply (objects only).
func (q *scn) observeTTL(o *obj, n int64, rs, rd time.Time, pingOK bool) {
	if n == -2 {
		q.observe(o, false, rs, rd, "ttl", pingOK)
		return
	}
	dBefore := o.d
	q.observe(o, true, rs, rd, "ttl", pingOK)
	if o.st != stExists || o.d != dBefore {
		return
	}
	if o.d == nil {
		if n != -1 {
			c := "none"
			if len(o.stales) > 0 {
				c = o.stales[len(o.stales)-1].cancel
			}
			q.violation("ttl:deadline-not-removed:"+c, fmt.Sprintf("TTL %s = %d although the object has no deadline (last cancelled by %s)", o.name(), n, c), o, nil)
		}
		return
	}
	if n == -1 {
		q.violation("ttl:no-deadline:"+o.d.label(), fmt.Sprintf("TTL %s = -1 although a deadline was set by %s (T=%.3fs)", o.name(), o.d.label(), o.d.T.Seconds()), o, nil)
		return
	}
	// server: n = floor(max(D-now,0)), D in [send+T, ack+T], now in [rs, rd]
	lo := o.d.send.Add(o.d.T).Sub(rd).Seconds() - 1.05
	hi := o.d.ack.Add(o.d.T).Sub(rs).Seconds() + 1.0
	if hi < 1 {
		hi = 1
	}
	q.e.ctx.Count("ttl_replies_judged", 1)
	if float64(n) < lo || float64(n) > hi {
		q.violation("ttl:out-of-range:"+o.d.label(), fmt.Sprintf("TTL %s = %d, client computes remaining in [%.3f, %.3f] s (deadline by %s, T=%.3fs); allowed [%.2f, %.2f]",
			o.name(), n, lo+1.05, hi-1.0, o.d.label(), o.d.T.Seconds(), lo, hi), o, nil)
	}
}

// nonTrivial reports whether the scenario had >= 1 expiry and >= 1 survival of a
// predecessor's deadline, and its shape key.
func (q *scn) nonTrivial() (bool, string) {
	ex, sv := 0, 0
	shapes := map[string]bool{}
	for _, o := range q.objs {
		ex += o.expired
		sv += o.survived
		if len(o.shape) > 0 {
			shapes[strings.Join(o.shape, ".")] = true
		}
	}
	var l []string
	for s := range shapes {
		l = append(l, s)
	}
	sortStrings(l)
	return ex > 0 && sv > 0, q.flavor + "|" + strings.Join(l, "|")
}

func sortStrings(a []string) {
	for i := 1; i < len(a); i++ {
		for j := i; j > 0 && a[j-1] > a[j]; j-- {
			a[j-1], a[j] = a[j], a[j-1]
		}
	}
}
