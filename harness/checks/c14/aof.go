package c14

import (
	"bytes"
	"fmt"
	"os"
	"strconv"
)

// parseAOF is a small RESP-array-of-bulk-strings parser for appendonly.aof.
// Zero bytes between commands are skipped (the server does the same); an
// incomplete tail is ignored.
func parseAOF(path string) ([][]string, error) {
	b, err := os.ReadFile(path)
	if err != nil {
		return nil, err
	}
	var out [][]string
	i := 0
	line := func() (string, bool) {
		j := bytes.Index(b[i:], []byte("\r\n"))
		if j < 0 {
			return "", false
		}
		s := string(b[i : i+j])
		i += j + 2
		return s, true
	}
	for i < len(b) {
		if b[i] == 0 {
			i++
			continue
		}
		if b[i] != '*' {
			return out, fmt.Errorf("aof offset %d: expected '*', got %q", i, b[i])
		}
		l, ok := line()
		if !ok {
			break
		}
		n, err := strconv.Atoi(l[1:])
		if err != nil || n < 0 {
			return out, fmt.Errorf("aof: bad array header %q", l)
		}
		args := make([]string, 0, n)
		complete := true
		for k := 0; k < n; k++ {
			l, ok := line()
			if !ok {
				complete = false
				break
			}
			if len(l) == 0 || l[0] != '$' {
				return out, fmt.Errorf("aof: bad bulk header %q", l)
			}
			m, err := strconv.Atoi(l[1:])
			if err != nil || m < 0 {
				return out, fmt.Errorf("aof: bad bulk length %q", l)
			}
			if i+m+2 > len(b) {
				complete = false
				break
			}
			args = append(args, string(b[i:i+m]))
			i += m + 2
		}
		if !complete {
			break
		}
		out = append(out, args)
	}
	return out, nil
}

// aofIndex answers "where is the k-th client SET of (key,id)" and "which sweeper
// entries exist for (key,id)". The client always sends upper-case command names and
// the server logs them as received; the sweeper logs lower-case del/delchan/delhook.
type aofIndex struct {
	cmds   [][]string
	setIdx map[string]int   // cmd|a1|a2|ord → index
	sweep  map[string][]int // delcmd|a1|a2 → indices (ascending)
	used   map[int]bool
}

func buildIndex(cmds [][]string) *aofIndex {
	ix := &aofIndex{cmds: cmds, setIdx: map[string]int{}, sweep: map[string][]int{}, used: map[int]bool{}}
	ords := map[string]int{}
	for i, c := range cmds {
		if len(c) < 2 {
			continue
		}
		switch c[0] {
		case "SET":
			if len(c) >= 3 {
				k := "set|" + c[1] + "|" + c[2]
				ords[k]++
				ix.setIdx[k+"|"+strconv.Itoa(ords[k])] = i
			}
		case "SETCHAN", "SETHOOK":
			k := map[string]string{"SETCHAN": "setchan", "SETHOOK": "sethook"}[c[0]] + "|" + c[1] + "|"
			ords[k]++
			ix.setIdx[k+"|"+strconv.Itoa(ords[k])] = i
		case "del":
			if len(c) == 3 {
				k := "del|" + c[1] + "|" + c[2]
				ix.sweep[k] = append(ix.sweep[k], i)
			}
		case "delchan", "delhook":
			k := c[0] + "|" + c[1] + "|"
			ix.sweep[k] = append(ix.sweep[k], i)
		}
	}
	return ix
}

// match finds an unused sweeper entry for the expiry after the SET that created
// the incarnation. Returns (setIndex, delIndex); delIndex < 0: none.
func (ix *aofIndex) match(e expRec) (int, int) {
	si, ok := ix.setIdx[e.setCmd+"|"+e.setKey+"|"+e.id+"|"+strconv.Itoa(e.setOrd)]
	if !ok {
		return -1, -1
	}
	best := -1
	for _, key := range []string{e.expKey, e.altKey} {
		k := e.delCmd + "|" + key + "|"
		if e.delCmd == "del" {
			k += e.id
		}
		for _, di := range ix.sweep[k] {
			if di > si && !ix.used[di] {
				if best < 0 || di < best {
					best = di
				}
				break
			}
		}
		if e.altKey == e.expKey {
			break
		}
	}
	if best >= 0 {
		ix.used[best] = true
		return si, best
	}
	return si, -1
}
