// Package c01: sequential keyspace model conformance (DESIGN.md section 4, C01).
package c01

import (
	"fmt"
	"os"
	"sort"
	"strings"
	"time"

	"verifharness/core"
	"verifharness/dump"
	"verifharness/kmodel"
	"verifharness/probes"
	"verifharness/respc"
	"verifharness/srv"
)

func classOf(r respc.Reply) string {
	switch r.Kind {
	case '-':
		return "err"
	case ':':
		if r.Int == 0 {
			return "int0"
		}
		if r.Int < 0 {
			return "neg"
		}
		return "int+"
	case '$':
		if r.Nil {
			return "nil"
		}
		return "bulk"
	case '*':
		if len(r.Arr) == 0 {
			return "empty"
		}
		return "array"
	}
	return string(r.Kind)
}

func cmdKind(a []string) string {
	k := strings.ToLower(a[0])
	var opts []string
	for _, x := range a[1:] {
		switch strings.ToLower(x) {
		case "nx", "xx", "ex", "field", "erron404", "withfields", "string", "point", "bounds", "hash", "object", "ids", "count", "match", "raw", "str":
			opts = append(opts, strings.ToLower(x))
		}
	}
	sort.Strings(opts)
	return k + "(" + strings.Join(dedup(opts), ",") + ")"
}

func dedup(a []string) []string {
	var o []string
	for i, x := range a {
		if i == 0 || a[i-1] != x {
			o = append(o, x)
		}
	}
	return o
}

func preClass(m *kmodel.Model, a []string) string {
	if len(a) < 2 {
		return "-"
	}
	col, ok := m.Cols[a[1]]
	if !ok {
		return "nokey"
	}
	if len(a) < 3 {
		return "key"
	}
	o, ok := col[a[2]]
	if !ok {
		return "noid"
	}
	c := "geo"
	if o.Str {
		c = "str"
	}
	if len(o.Fields) > 0 {
		c += "+f"
	}
	if o.HasEx {
		c += "+ex"
	}
	return c
}

type sess struct {
	ctx  *core.Ctx
	s    *srv.Server
	c    *respc.Conn
	m    *kmodel.Model
	log  [][]string
	dead bool
}

func (ss *sess) crashCheck(what string) bool {
	if ss.s.Alive() {
		return false
	}
	_, site := ss.s.Crashed()
	ss.ctx.Violation("crash:"+site, "server died during "+what+": "+site, map[string]any{"commands": tailLog(ss.log, 50), "stderr": ss.s.StderrTail(3000)})
	ss.dead = true
	return true
}

func tailLog(l [][]string, n int) [][]string {
	if len(l) > n {
		return l[len(l)-n:]
	}
	return l
}

// step applies one command to model and server and compares.
func (ss *sess) step(cmd []string) bool {
	pre := preClass(ss.m, cmd)
	before := ss.m.Clone()
	exp, known := ss.m.Apply(cmd)
	if !known {
		ss.m = before
		return true
	}
	ss.log = append(ss.log, cmd)
	got, err := ss.c.Do(cmd...)
	if err != nil {
		time.Sleep(50 * time.Millisecond)
		if ss.crashCheck(fmt.Sprint(cmd)) {
			return false
		}
		ss.ctx.Inconclusive(fmt.Sprintf("i/o error on %q: %v", cmd, err))
		ss.dead = true
		return false
	}
	ss.ctx.Eval(1)
	ok, why := ss.m.Match(exp, got)
	if !ok {
		ss.ctx.Violation("reply:"+cmdKind(cmd)+":"+pre, fmt.Sprintf("command %q in pre-state %s: %s", cmd, pre, why),
			map[string]any{"commands": tailLog(ss.log, 60), "expected": ss.m.Show(exp), "got": got.String()})
		return false
	}
	if pre != "nokey" && pre != "-" {
		ss.ctx.Distinct(cmdKind(cmd) + "|" + pre + "|" + classOf(got))
	}
	return true
}

func (ss *sess) compareDump(when string) bool {
	st, err := dump.TakeConn(ss.c, dump.Opts{NoHooks: true})
	if err != nil {
		time.Sleep(50 * time.Millisecond)
		if ss.crashCheck("dump") {
			return false
		}
		ss.ctx.Inconclusive("dump failed: " + err.Error())
		ss.dead = true
		return false
	}
	ss.ctx.Count("dumps_compared", 1)
	if d := ss.m.CompareDump(st); d != "" {
		last := "-"
		if len(ss.log) > 0 {
			last = cmdKind(ss.log[len(ss.log)-1])
		}
		ss.ctx.Violation("state:"+last, "visible dataset differs from the model "+when+": "+d, map[string]any{"commands": tailLog(ss.log, 80)})
		return false
	}
	return true
}

// Run is the C01 check.
func Run(ctx *core.Ctx) {
	ctx.Rule = "workload A: breadth-first sweep of the model's reachable state graph for a 2x2 alphabet, every (state, command) edge driven on the real server from a flushed state, reply and full dump compared; workload B: long random programs over small and hostile alphabets, reply compared per command and dump every 25 commands. non-trivial = compared command whose target collection existed; distinct key = (command kind+option set, pre-state class of the target, reply class)"
	ctx.Assumptions = []string{"geometry text of HASH/OBJECT literals is pinned at first read (not predicted)", "TTL replies judged as an interval; EX >= 1000 s so nothing expires during the run", "field names without '.', no RETURN clause (C17)"}
	bin, err := srv.Build("plain")
	if err != nil {
		ctx.Fatal("%v", err)
	}
	s, err := srv.Start(srv.Opts{Bin: bin})
	if err != nil {
		ctx.Fatal("%v", err)
	}
	newSess := func() *sess {
		if !s.Alive() {
			s, err = srv.Start(srv.Opts{Bin: bin})
			if err != nil {
				ctx.Fatal("%v", err)
			}
		}
		c, err := respc.Dial(s.Addr(), 5*time.Second)
		if err != nil {
			ctx.Fatal("dial: %v", err)
		}
		c.Do("FLUSHDB")
		return &sess{ctx: ctx, s: s, c: c, m: kmodel.New()}
	}

	if os.Getenv("VERIF_C01_SANONLY") != "" {
		// debugging aid: only the sanitizer builds
		sanitizerRun(ctx)
		ctx.Distinct("sanitizer-only-a")
		ctx.Distinct("sanitizer-only-b")
		ctx.Finish()
	}
	// ---- workload A: state graph sweep
	sweep(ctx, newSess)
	supersededDeadlines(ctx, newSess)
	probes.RefusedChangesNothing(ctx, bin, "c01")

	// ---- workload B: random programs
	nprog := ctx.Pick(120, 3000)
	for p := 0; p < nprog && ctx.Violations() < 25; p++ {
		ss := newSess()
		var g *kmodel.Gen
		if p%2 == 0 {
			g = kmodel.DefaultGen(ctx.Rng)
		} else {
			g = kmodel.RichGen(ctx.Rng)
		}
		n := 200 + ctx.Rng.Intn(ctx.Pick(400, 1800))
		okAll := true
		for i := 0; i < n; i++ {
			if !ss.step(g.Next()) {
				okAll = false
				break
			}
			if i%25 == 24 {
				if !ss.compareDump(fmt.Sprintf("after %d commands", i+1)) {
					okAll = false
					break
				}
			}
		}
		if okAll && !ss.dead {
			ss.compareDump("at end of program")
		}
		if p < 2 && len(ss.log) > 12 {
			ctx.Sample(map[string]any{"program_prefix": ss.log[:12]})
		}
		ctx.Count("programs", 1)
		ss.c.Close()
	}
	if ctx.Thorough() {
		sanitizerRun(ctx)
	}
	ctx.Finish()
}

// supersededDeadlines: the only part of C01 in which a deadline passes. Objects
// get a one-second deadline which is then moved far away (EXPIRE, SET ... EX
// again), removed (PERSIST, SET without EX) or made irrelevant (DEL and a new
// SET, RENAME of the collection) through the model-checked commands; two and a
// half seconds later the visible dataset must still be the model's: a deadline
// that no longer applies must not remove anything.
func supersededDeadlines(ctx *core.Ctx, newSess func() *sess) {
	ss := newSess()
	defer ss.c.Close()
	objs := map[string][]string{"p": {"POINT", "10", "20"}, "s": {"STRING", "text"}, "b": {"BOUNDS", "1", "2", "3", "4"}}
	set := func(id string, ex string, ob []string) []string {
		c := []string{"SET", "qd", id}
		if ex != "" {
			c = append(c, "EX", ex)
		}
		return append(c, ob...)
	}
	var cmds [][]string
	for _, k := range []string{"p", "s", "b"} {
		ob := objs[k]
		cmds = append(cmds,
			set("a"+k, "1", ob), []string{"EXPIRE", "qd", "a" + k, "1000"},
			set("b"+k, "1", ob), set("b"+k, "1000", ob),
			set("c"+k, "1", ob), []string{"PERSIST", "qd", "c" + k},
			set("d"+k, "1", ob), set("d"+k, "", ob),
			set("e"+k, "1", ob), []string{"FSET", "qd", "e" + k, "f", "5"}, []string{"EXPIRE", "qd", "e" + k, "2000"},
			set("g"+k, "1", ob), []string{"DEL", "qd", "g" + k}, set("g"+k, "", ob),
			set("h"+k, "1", ob), set("h"+k, "1", objs["p"]), set("h"+k, "3000", objs["s"]),
		)
	}
	cmds = append(cmds, []string{"SET", "qr", "x", "EX", "1", "POINT", "1", "1"}, []string{"EXPIRE", "qr", "x", "1000"}, []string{"RENAME", "qr", "qr2"}, []string{"SET", "qr", "x", "POINT", "2", "2"})
	for _, c := range cmds {
		if !ss.step(c) {
			return
		}
	}
	last := time.Now()
	if !ss.compareDump("right after the deadlines were superseded") {
		return
	}
	time.Sleep(2500*time.Millisecond - time.Since(last))
	ctx.Count("superseded_deadlines_waited_out", int64(len(cmds)))
	ctx.Distinct("superseded-deadline|waited")
	for _, c := range [][]string{{"SCAN", "qd", "COUNT"}, {"EXISTS", "qd", "ap"}, {"EXISTS", "qd", "bs"}, {"GET", "qr2", "x"}, {"GET", "qr", "x"}} {
		if !ss.step(c) {
			return
		}
	}
	ss.compareDump("2.5 s after one-second deadlines were moved, removed or superseded")
}

// sanitizerRun repeats random programs with hostile lengths (around the varint
// boundaries of the packed object head and field list) against the ASan build
// and the race build (which implies checkptr). A sanitizer report or a crash is
// a violation; replies and dumps are still compared with the model.
func sanitizerRun(ctx *core.Ctx) {
	for _, kind := range []string{"asan", "race"} {
		bin, err := srv.Build(kind)
		if err != nil {
			ctx.Count("sanitizer_build_failed:"+kind, 1)
			ctx.Logf("%s build failed: %v", kind, err)
			continue
		}
		s, err := srv.Start(srv.Opts{Bin: bin, ReadyTimeout: 120 * time.Second})
		if err != nil {
			ctx.Count("sanitizer_start_failed:"+kind, 1)
			continue
		}
		lens := []int{0, 1, 127, 128, 129, 255, 256, 16383, 16384, 16385, 70000}
		mk := func(n int, c byte) string { return strings.Repeat(string(c), n) }
		for p := 0; p < 40 && ctx.Violations() < 25; p++ {
			if !s.Alive() {
				break
			}
			c, err := respc.Dial(s.Addr(), 5*time.Second)
			if err != nil {
				break
			}
			c.Timeout = 60 * time.Second
			c.Do("FLUSHDB")
			ss := &sess{ctx: ctx, s: s, c: c, m: kmodel.New()}
			g := kmodel.RichGen(ctx.Rng)
			// hostile lengths for ids, field names and values
			g.IDs = append(g.IDs, mk(lens[ctx.Rng.Intn(len(lens))]+1, 'i'), mk(lens[ctx.Rng.Intn(len(lens))]+1, 'j'))
			g.Fields = append(g.Fields, mk(lens[1+ctx.Rng.Intn(len(lens)-1)], 'f'), mk(lens[1+ctx.Rng.Intn(len(lens)-1)], 'g'))
			okAll := true
			for i := 0; i < 300; i++ {
				cmd := g.Next()
				if ctx.Rng.Intn(6) == 0 && (strings.EqualFold(cmd[0], "fset")) && len(cmd) >= 5 {
					cmd[len(cmd)-1] = mk(lens[ctx.Rng.Intn(len(lens))], 'v') + "x"
				}
				if !ss.step(cmd) {
					okAll = false
					break
				}
			}
			if okAll && !ss.dead {
				ss.compareDump("(sanitizer build " + kind + ")")
			}
			c.Close()
			ctx.Count("sanitizer_programs:"+kind, 1)
		}
		time.Sleep(100 * time.Millisecond)
		if crashed, site := s.Crashed(); crashed {
			ctx.Violation("sanitizer:"+kind+":"+site, kind+" build reported: "+site, map[string]any{"stderr": s.StderrTail(4000)})
		}
		s.Kill9()
	}
}

func stateKey(m *kmodel.Model) string {
	var sb strings.Builder
	keys := make([]string, 0, len(m.Cols))
	for k := range m.Cols {
		keys = append(keys, k)
	}
	sort.Strings(keys)
	for _, k := range keys {
		sb.WriteString(k + "{")
		ids := make([]string, 0)
		for id := range m.Cols[k] {
			ids = append(ids, id)
		}
		sort.Strings(ids)
		for _, id := range ids {
			o := m.Cols[k][id]
			sb.WriteString(id + "=")
			if o.Str {
				sb.WriteString("s:" + o.Text)
			} else {
				sb.WriteString("g:" + o.Text + o.Lit)
			}
			fn := make([]string, 0)
			for f, v := range o.Fields {
				fn = append(fn, f+":"+v.Data)
			}
			sort.Strings(fn)
			sb.WriteString("[" + strings.Join(fn, ",") + "]")
			if o.HasEx {
				sb.WriteString("!")
			}
			sb.WriteString(";")
		}
		sb.WriteString("}")
	}
	return sb.String()
}

func sweepAlphabet() [][]string {
	var cmds [][]string
	keys := []string{"k1", "k2"}
	ids := []string{"a", "b"}
	for _, k := range keys {
		for _, id := range ids {
			objs := [][]string{{"POINT", "10", "20"}, {"STRING", "s"}}
			for _, ob := range objs {
				for _, opt := range [][]string{{}, {"NX"}, {"XX"}, {"EX", "1000"}, {"FIELD", "f", "1"}, {"FIELD", "f", "0"}, {"FIELD", "f", "2", "EX", "1500", "XX"}} {
					c := append([]string{"SET", k, id}, opt...)
					cmds = append(cmds, append(c, ob...))
				}
			}
			cmds = append(cmds,
				[]string{"FSET", k, id, "f", "1"}, []string{"FSET", k, id, "f", "0"}, []string{"FSET", k, id, "XX", "f", "2"},
				[]string{"DEL", k, id}, []string{"DEL", k, id, "ERRON404"},
				[]string{"EXPIRE", k, id, "1200"}, []string{"PERSIST", k, id},
				[]string{"JSET", k, id, "p", "1"}, []string{"JDEL", k, id, "p"}, []string{"JSET", k, id, "coordinates.0", "5"},
				[]string{"GET", k, id, "WITHFIELDS"}, []string{"FGET", k, id, "f"}, []string{"EXISTS", k, id}, []string{"FEXISTS", k, id, "f"},
				[]string{"TTL", k, id}, []string{"JGET", k, id, "p"})
		}
		cmds = append(cmds, []string{"PDEL", k, "a*"}, []string{"PDEL", k, "*"}, []string{"DROP", k}, []string{"TYPE", k}, []string{"SCAN", k}, []string{"SCAN", k, "COUNT"})
	}
	cmds = append(cmds, []string{"RENAME", "k1", "k2"}, []string{"RENAME", "k2", "k1"}, []string{"RENAME", "k1", "k1"}, []string{"RENAMENX", "k1", "k2"}, []string{"RENAMENX", "k2", "k1"},
		[]string{"FLUSHDB"}, []string{"KEYS", "*"}, []string{"KEYS", "k1"})
	return cmds
}

func sweep(ctx *core.Ctx, newSess func() *sess) {
	alphabet := sweepAlphabet()
	depth := ctx.Pick(2, 3)
	maxEdges := ctx.Pick(9000, 400000)
	type node struct {
		m    *kmodel.Model
		path [][]string
		d    int
	}
	root := &node{m: kmodel.New()}
	seen := map[string]bool{stateKey(root.m): true}
	queue := []*node{root}
	edges := 0
	truncated := false
	ss := newSess()
	defer ss.c.Close()
	for len(queue) > 0 && ctx.Violations() < 25 {
		n := queue[0]
		queue = queue[1:]
		for _, cmd := range alphabet {
			if edges >= maxEdges {
				truncated = true
				break
			}
			// model transition
			nm := n.m.Clone()
			exp, known := nm.Apply(cmd)
			if !known {
				continue
			}
			edges++
			// drive server: flush, path, command (pipelined), compare final reply and dump
			if ss.dead {
				ss = newSess()
			}
			ss.c.Send("FLUSHDB")
			for _, pc := range n.path {
				ss.c.Send(pc...)
			}
			ss.c.Send(cmd...)
			var got respc.Reply
			var err error
			for i := 0; i < len(n.path)+2; i++ {
				got, err = ss.c.Recv()
				if err != nil {
					break
				}
			}
			ss.log = append(append([][]string{{"FLUSHDB"}}, n.path...), cmd)
			if err != nil {
				time.Sleep(50 * time.Millisecond)
				if !ss.crashCheck(fmt.Sprint(cmd)) {
					ctx.Inconclusive("sweep i/o error: " + err.Error())
				}
				ss.dead = true
				continue
			}
			ctx.Eval(1)
			pre := preClass(n.m, cmd)
			if ok, why := nm.Match(exp, got); !ok {
				ctx.Violation("reply:"+cmdKind(cmd)+":"+pre, fmt.Sprintf("sweep: path %v then %q: %s", n.path, cmd, why), map[string]any{"commands": ss.log})
				continue
			}
			ss.m = nm
			if !ss.compareDump("(sweep edge)") {
				continue
			}
			if pre != "nokey" && pre != "-" {
				ctx.Distinct(cmdKind(cmd) + "|" + pre + "|" + classOf(got))
			}
			if edges == 77 {
				ctx.Sample(map[string]any{"sweep_edge": ss.log, "reply": got.String()})
			}
			key := stateKey(nm)
			if !seen[key] && n.d+1 <= depth {
				seen[key] = true
				if n.d+1 < depth {
					np := append(append([][]string{}, n.path...), cmd)
					queue = append(queue, &node{m: nm, path: np, d: n.d + 1})
				}
			}
		}
	}
	ctx.Count("sweep_edges", int64(edges))
	ctx.Count("sweep_states", int64(len(seen)))
	ctx.Set("sweep_depth", depth)
	ctx.Set("sweep_exhaustive_to_depth", !truncated)
}
